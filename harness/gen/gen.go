// Package gen holds the seeded generators of the conformance drivers.
// Everything generated stays inside the domain the specification models
// (DESIGN.md Appendix B): BMP strings without control characters, 64-bit
// integers, finite non-integral floats, bools, nulls, maps and lists.
package gen

import (
	"math"
	"math/rand"
	"sort"
)

type G struct {
	R        *rand.Rand
	Keys     []string
	Strs     []string
	MaxDepth int
	MaxWidth int
	NullP    float64 // probability of a null scalar
	ReqP     float64 // probability of a "$required" marker where a value goes
	big      bool
}

func New(seed int64) *G {
	return &G{
		R:        rand.New(rand.NewSource(seed)),
		Keys:     []string{"a", "b", "c", "d", "e", "x", "y", "name", "k.1", "é"},
		Strs:     []string{"x", "y", "hello", "", "1", "true", "null", "a b", "1.5", "é", "v:w", "#c", "- d", "{a}", "[z]", "<<"},
		MaxDepth: 3,
		MaxWidth: 3,
		NullP:    0.05,
		ReqP:     0.03,
	}
}

// Big switches the generator to the LARGE regime: wide maps and long lists at
// the upper levels (the width shrinks with depth, so that trees stay a few
// hundred nodes), deeper nesting, and a key / string pool with non-ASCII and
// multi-byte characters, keys that differ only in case or in Unicode
// composition, keys whose byte order differs from a case-insensitive or
// numeric order, long keys with a shared prefix.
func (g *G) Big() *G {
	g.big = true
	g.MaxWidth = 8 + g.N(25)
	g.MaxDepth = 4 + g.N(3)
	long := "a-long-key-with-a-shared-prefix-that-goes-on-and-on-and-on-for-more-than-sixty-four-characters-"
	g.Keys = append(g.Keys, "Name", "NAME", "name2", "name10", "a10", "a2", "A", "B", "Z", "_", "ä", "Ä", "ö", "ß", "\u00e9", "e\u0301", "日本", "日本語", "ключ",
		"k 1", "k-1", "k_1", "0", "00", "10", "9", long+"1", long+"2", long+"10", "zz", "zzz", "é2", "x.y.z")
	for i := 0; i < 24; i++ {
		g.Keys = append(g.Keys, "k"+string(rune('a'+i%26))+string(rune('0'+i%10)))
	}
	g.Strs = append(g.Strs, "Ünïcödé", "e\u0301", "\u00e9", "日本語のテキスト", long, "ß", "ALLCAPS", "allcaps", "a much longer string value that contains spaces, commas, and: colons # and hashes")
	return g
}

// width is the number of children at nesting level `d` below the root limit.
func (g *G) width(d int) int {
	if !g.big {
		return g.MaxWidth
	}
	lvl := g.MaxDepth - d // 0 at the top
	w := g.MaxWidth
	for i := 0; i < lvl; i++ {
		w = w/3 + 1
	}
	return w
}

func (g *G) P(p float64) bool { return g.R.Float64() < p }
func (g *G) N(n int) int {
	if n <= 0 {
		return 0
	}
	return g.R.Intn(n)
}
func (g *G) Pick(ss []string) string { return ss[g.R.Intn(len(ss))] }

func (g *G) Int() int {
	if g.P(0.08) {
		// neighbours above 2^53 and at the end of the range: different integers, one double
		return []int{1<<53 + 1, 1<<53 + 2, math.MaxInt64 - 1, math.MinInt64 + 1, 1700000000000000001, 1700000000000000000}[g.N(6)]
	}
	switch g.N(12) {
	case 0:
		return math.MaxInt64
	case 1:
		return math.MinInt64
	case 2:
		return 1 << 53
	case 3:
		return -(g.N(1000) + 1)
	case 4:
		return 2147483648 + g.N(10)
	default:
		return g.N(6)
	}
}

var floats = []float64{0.5, 1.5, -2.25, 0.1, 3.14159, 1e-7, 2.5e10 + 0.5, 1.7976931348623157e308, 5e-324, 0.30000000000000004, 123456.789}

func (g *G) Float() float64 { return floats[g.N(len(floats))] }

func (g *G) Scalar() any {
	if g.P(g.NullP) {
		return nil
	}
	if g.P(g.ReqP) {
		return "$required"
	}
	switch g.N(10) {
	case 0, 1, 2:
		return g.Int()
	case 3:
		return g.Float()
	case 4:
		return g.P(0.5)
	default:
		return g.Pick(g.Strs)
	}
}

func (g *G) Key() string { return g.Pick(g.Keys) }

func (g *G) Map(d int) map[string]any {
	m := map[string]any{}
	n := g.N(g.width(d) + 1)
	for i := 0; i < n; i++ {
		m[g.Key()] = g.Tree(d - 1)
	}
	return m
}

func (g *G) List(d int) []any {
	l := []any{}
	n := g.N(g.width(d) + 1)
	// lists of similar maps are common in configuration and make patterns meaningful
	if g.P(0.5) && d > 0 {
		for i := 0; i < n; i++ {
			m := map[string]any{}
			for _, k := range g.Keys[:3] {
				if g.P(0.7) {
					m[k] = g.smallScalar()
				}
			}
			if g.P(0.2) {
				m[g.Key()] = g.Tree(d - 2)
			}
			l = append(l, m)
		}
		return l
	}
	for i := 0; i < n; i++ {
		l = append(l, g.Tree(d-1))
	}
	return l
}

func (g *G) smallScalar() any {
	switch g.N(4) {
	case 0:
		return g.N(3)
	case 1:
		return g.Pick([]string{"x", "y"})
	case 2:
		return g.P(0.5)
	default:
		return g.N(2)
	}
}

func (g *G) Tree(d int) any {
	if d <= 0 {
		return g.Scalar()
	}
	switch g.N(10) {
	case 0, 1, 2, 3:
		return g.Map(d)
	case 4, 5, 6:
		return g.List(d)
	default:
		return g.Scalar()
	}
}

func Clone(v any) any {
	switch x := v.(type) {
	case map[string]any:
		m := make(map[string]any, len(x))
		for k, e := range x {
			m[k] = Clone(e)
		}
		return m
	case []any:
		l := make([]any, len(x))
		for i, e := range x {
			l[i] = Clone(e)
		}
		return l
	default:
		return v
	}
}

func SortedKeys(m map[string]any) []string {
	ks := make([]string, 0, len(m))
	for k := range m {
		ks = append(ks, k)
	}
	sort.Strings(ks)
	return ks
}

// OtherScalar returns a scalar different from v.
func (g *G) OtherScalar(v any) any {
	for i := 0; i < 20; i++ {
		s := g.Scalar()
		if s != v && s != nil && s != "$required" {
			return s
		}
	}
	return "other"
}

// Pattern derives a $match/$delete pattern from an element: mostly a hit,
// sometimes a partial or inverted pattern, sometimes a miss.
func (g *G) Pattern(elem any, d int) any {
	switch x := elem.(type) {
	case map[string]any:
		pat := map[string]any{}
		for _, k := range SortedKeys(x) {
			if g.P(0.6) {
				if d > 0 && g.P(0.5) {
					pat[k] = g.Pattern(x[k], d-1)
				} else {
					pat[k] = Clone(x[k])
				}
			}
		}
		if g.P(0.08) {
			pat[g.Key()] = g.Scalar() // probably a miss (or a null that matches an absent key)
		}
		if g.P(0.1) {
			pat["$invert"] = true
		}
		if g.P(0.03) {
			pat["$invert"] = g.Pick([]string{"true", "x"}) // not a bool: ordinary key
		}
		return pat
	case []any:
		pat := []any{}
		for _, e := range x {
			if g.P(0.5) {
				pat = append(pat, Clone(e))
			}
		}
		if g.P(0.1) {
			pat = append(pat, g.Scalar())
		}
		if len(pat) > 0 && g.P(0.2) {
			// list patterns are not one-to-one: repeat an entry (the pattern may
			// then be longer than the list it matches)
			pat = append(pat, Clone(pat[g.N(len(pat))]))
		}
		return pat
	default:
		if g.P(0.8) {
			return x
		}
		return g.Scalar()
	}
}

// Patch generates a child to be layered over parent: an edit script that
// visits the parent's positions with the whole catalogue of override forms,
// valid and invalid.
func (g *G) Patch(parent any, d int) any {
	switch p := parent.(type) {
	case map[string]any:
		return g.patchMap(p, d)
	case []any:
		return g.patchList(p, d)
	case nil:
		return g.Tree(d)
	default:
		switch {
		case g.P(0.08):
			return p // same scalar: useless override
		case g.P(0.06):
			return nil
		case g.P(0.3):
			return g.Tree(d)
		default:
			return g.OtherScalar(p)
		}
	}
}

func (g *G) patchMap(p map[string]any, d int) any {
	switch {
	case g.P(0.03):
		return g.Scalar() // scalar over map: error unless the map is empty
	case g.P(0.02):
		return g.List(d)
	case g.P(0.02):
		return nil
	}
	c := map[string]any{}
	if g.P(0.05) {
		c["$replace"] = true
		for i := g.N(3); i > 0; i-- {
			c[g.Key()] = g.Tree(d - 1)
		}
		return c
	}
	for _, k := range SortedKeys(p) {
		if !g.P(0.45) {
			continue
		}
		switch r := g.N(20); {
		case r < 9:
			c[k] = g.Patch(p[k], d-1)
		case r < 11:
			c[k] = "$delete"
		case r < 12:
			c[k] = Clone(p[k]) // identical subtree: useless for scalars, legal for containers
		case r < 13:
			c[k] = nil
		default:
			c[k] = g.Tree(d - 1)
		}
	}
	for i := g.N(3); i > 0; i-- {
		k := g.Key()
		if _, ok := p[k]; !ok {
			c[k] = g.Tree(d - 1)
		}
	}
	if g.P(0.03) {
		c["zz"] = "$delete" // deleting something absent: useless
	}
	if g.P(0.03) {
		c["$replace"] = g.Pick([]string{"x", "true"}) // not the boolean: ordinary key
	}
	if g.P(0.02) {
		c["$replace"] = false
	}
	if g.P(0.03) {
		c[g.Pick([]string{"$match", "$value", "$invert", "$delete"})] = g.Tree(1) // misplaced: ordinary key
	}
	return c
}

func (g *G) patchList(p []any, d int) any {
	switch {
	case g.P(0.03):
		return g.Scalar()
	case g.P(0.03):
		return g.Map(d)
	case g.P(0.02):
		return nil
	}
	c := []any{}
	n := g.N(4)
	for i := 0; i < n; i++ {
		var elem any
		if len(p) > 0 {
			elem = p[g.N(len(p))]
		} else {
			elem = g.Tree(1)
		}
		switch r := g.N(40); {
		case r < 14:
			c = append(c, g.Tree(d-1))
		case r < 16:
			c = append(c, "$replace")
		case r < 18:
			c = append(c, map[string]any{"$replace": true})
		case r < 19:
			c = append(c, map[string]any{"$replace": true, g.Key(): g.Scalar()}) // extra keys
		case r < 26:
			c = append(c, map[string]any{"$delete": g.Pattern(elem, 1)})
		case r < 27:
			c = append(c, map[string]any{"$delete": g.Pattern(elem, 1), g.Key(): g.Scalar()}) // extra keys
		case r < 32:
			var v any
			if g.P(0.6) {
				v = g.Patch(elem, d-1)
			} else {
				v = g.Tree(d - 1)
			}
			c = append(c, map[string]any{"$match": g.Pattern(elem, 1), "$value": v})
		case r < 36:
			e := map[string]any{"$match": g.Pattern(elem, 1)}
			if pm, ok := g.Patch(elem, d-1).(map[string]any); ok {
				for k, v := range pm {
					if k != "$match" {
						e[k] = v
					}
				}
			} else {
				e[g.Key()] = g.Scalar()
			}
			c = append(c, e)
		case r < 37:
			c = append(c, map[string]any{"$match": g.Pattern(elem, 1), "$value": g.Scalar(), g.Key(): 1}) // extra keys
		case r < 38:
			c = append(c, "$required")
		case r < 39:
			c = append(c, map[string]any{"$replace": false})
		default:
			c = append(c, map[string]any{g.Pick([]string{"$value", "$invert", "$merge", "$encode"}): g.Scalar()})
		}
	}
	return c
}
