package gen

import "fmt"

// Env is the controlled environment of evaluation drivers.
var Env = map[string]string{"BKLV_A": "alpha", "BKLV_N": "42", "BKLV_E": ""}

// EvalDoc generates a map-rooted document that exercises the evaluator:
// plain data decorated with references ($merge/$replace in map, list and
// string form), $output markers, $repeat (document level and nested),
// interpolation, $env, $value, $$ escapes and a few invalid directives.
// References only point from later decorations to earlier material, so no
// reference cycle is generated (cycles belong to C08).
func (g *G) EvalDoc() map[string]any {
	saveReq := g.ReqP
	g.ReqP = 0
	defer func() { g.ReqP = saveReq }()
	m := map[string]any{}
	// plain targets
	tm := []string{} // map-valued
	tl := []string{} // list-valued
	ts := []string{} // scalar paths (dotted)
	n := 2 + g.N(3)
	for i := 0; i < n; i++ {
		k := fmt.Sprintf("t%d", i)
		switch g.N(3) {
		case 0:
			mm := map[string]any{}
			for j := 0; j <= g.N(3); j++ {
				kk := g.Pick([]string{"a", "b", "c", "d"})
				if g.P(0.3) {
					mm[kk] = map[string]any{"x": g.smallScalar(), "y": g.Pick(g.Strs)}
				} else {
					mm[kk] = g.smallScalar()
					ts = append(ts, k+"."+kk)
				}
			}
			m[k] = mm
			tm = append(tm, k)
		case 1:
			l := []any{}
			for j := 0; j <= g.N(3); j++ {
				if g.P(0.3) {
					l = append(l, map[string]any{"a": g.smallScalar()})
				} else {
					l = append(l, g.smallScalar())
				}
			}
			m[k] = l
			tl = append(tl, k)
		default:
			switch g.N(4) {
			case 0:
				m[k] = g.Float()
			case 1:
				m[k] = g.Pick(g.Strs)
			default:
				m[k] = g.smallScalar()
			}
			ts = append(ts, k)
		}
	}
	repeatVar := ""
	nd := g.N(6)
	for i := 0; i < nd; i++ {
		k := fmt.Sprintf("h%d", i)
		switch r := g.N(24); {
		case r < 3 && len(tm) > 0: // map host merging a map target
			t := g.Pick(tm)
			h := map[string]any{"own": g.smallScalar()}
			if g.P(0.3) {
				h["a"] = "hostval" // may collide with the target's key: referenced wins, equal is useless
			}
			if tmap, ok := m[t].(map[string]any); ok && g.P(0.35) {
				// an EMPTY local container where the target holds a map: the merge fills it
				// (on the evaluation copy only)
				for _, tk := range SortedKeys(tmap) {
					if _, isMap := tmap[tk].(map[string]any); isMap && tk[0] != '$' {
						h[tk] = map[string]any{}
					}
				}
			}
			if g.P(0.5) {
				h["$merge"] = t
			} else {
				h["$merge"] = []any{t}
			}
			m[k] = h
			tm = append(tm, k) // chains: later hosts may reference this one
		case r < 5 && len(tm) > 0:
			t := g.Pick(tm)
			switch g.N(3) {
			case 0:
				m[k] = map[string]any{"$replace": t, "dropped": 1}
			case 1:
				m[k] = "$replace:" + t
			default:
				m[k] = "$merge:" + t
			}
		case r < 7 && len(tl) > 0:
			t := g.Pick(tl)
			if g.P(0.6) {
				m[k] = []any{"first", map[string]any{"$merge": t}, "last"}
			} else {
				m[k] = []any{"gone", map[string]any{"$replace": t}}
			}
			tl = append(tl, k)
		case r < 9 && len(ts) > 0:
			t := g.Pick(ts)
			switch g.N(3) {
			case 0:
				m[k] = "$merge:" + t
			case 1:
				m[k] = fmt.Sprintf(`$"<%s|{%s}>"`, g.Pick([]string{"p", "é:", "a}b", ""}), t)
			default:
				m[k] = fmt.Sprintf(`$"{%s}-{%s}"`, t, g.Pick(ts))
			}
		case r < 11:
			// $output markers on an existing map/list target
			if len(tm) > 0 && g.P(0.6) {
				if mm, ok := m[g.Pick(tm)].(map[string]any); ok {
					mm["$output"] = g.P(0.6)
				}
			} else if len(tl) > 0 {
				t := g.Pick(tl)
				if l, ok := m[t].([]any); ok {
					m[t] = append(l, map[string]any{"$output": g.P(0.6)})
				}
			}
		case r < 13:
			if repeatVar == "" {
				if g.P(0.6) {
					m["$repeat"] = g.N(4)
					repeatVar = "$repeat"
				} else {
					m["$repeat"] = map[string]any{"x": 1 + g.N(2), "y": g.N(3)}
					repeatVar = "$repeat:x"
				}
			}
			if repeatVar == "$repeat" && g.P(0.5) {
				m[k] = "$repeat"
			} else {
				m[k] = fmt.Sprintf(`$"i{%s}"`, repeatVar)
			}
		case r < 15:
			switch g.N(4) {
			case 0:
				m[k] = "$env:BKLV_A"
			case 1:
				m[k] = `$"{$env:BKLV_N}/{$env:BKLV_A}"`
			case 2:
				m["$env:BKLV_A"] = g.smallScalar()
			default:
				m[k] = "$env:BKLV_UNSET" // error
			}
		case r < 17:
			switch g.N(3) {
			case 0:
				m[k] = "$$literal"
			case 1:
				m["$$k"+k] = "a$$b$$"
			default:
				m[k] = []any{"$$", "x$$$$y"}
			}
		case r < 19:
			if g.P(0.5) {
				m[k] = []any{"a", map[string]any{"$repeat": g.N(3), "i": "$repeat", "s": `$"n{$repeat}"`}, "z"}
			} else {
				m[k] = map[string]any{`$"k{$repeat}"`: map[string]any{"$repeat": 1 + g.N(2), "v": "$repeat"}, "other": 1}
			}
		case r < 20:
			m[k] = map[string]any{"$value": g.Tree(1)}
		case r < 21:
			m[k] = nil
		case r < 22:
			m[k] = g.Pick([]string{"$required", "$bogus", "$delete", "$match", "$output"}) // error at validation
		case r < 23:
			m[k] = map[string]any{g.Pick([]string{"$match", "$delete", "$invert", "$parent", "$output"}): g.smallScalar()}
		default:
			m[k] = g.Tree(2)
		}
	}
	return m
}
