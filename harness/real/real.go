// Package real drives the real gopatchy/bkl library (built from /repo's
// working tree through the module replace) and projects what it does onto
// the specification's vocabulary. Only the public API is used.
package real

import (
	"errors"
	"fmt"
	"os"
	"sync"

	"github.com/gopatchy/bkl"

	"bklverif/tv"
)

// ErrClass maps a bkl error onto the specification's error class names.
func ErrClass(err error) string {
	if err == nil {
		return ""
	}
	table := []struct {
		e error
		c string
	}{
		{bkl.ErrUselessOverride, "useless"}, {bkl.ErrInvalidType, "invalidtype"},
		{bkl.ErrExtraKeys, "extrakeys"}, {bkl.ErrNoMatchFound, "nomatch"},
		{bkl.ErrRequiredField, "required"}, {bkl.ErrInvalidDirective, "invaliddirective"},
		{bkl.ErrCircularRef, "circular"}, {bkl.ErrRefNotFound, "refnotfound"},
		{bkl.ErrVariableNotFound, "varnotfound"}, {bkl.ErrInvalidRepeat, "invalidrepeat"},
		{bkl.ErrMultiMatch, "multimatch"}, {bkl.ErrMissingFile, "missingfile"},
		{bkl.ErrMissingMatch, "missingmatch"}, {bkl.ErrInvalidArguments, "invalidarguments"},
		{bkl.ErrUnknownFormat, "unknownformat"}, {bkl.ErrInvalidParent, "invalidparent"},
		{bkl.ErrConflictingParent, "conflictingparent"}, {bkl.ErrInvalidFilename, "invalidfilename"},
		{bkl.ErrUnmarshal, "unmarshal"}, {bkl.ErrMarshal, "marshal"},
	}
	for _, t := range table {
		if errors.Is(err, t.e) {
			return t.c
		}
	}
	return "other"
}

// Outcome of one call.
type Outcome struct {
	OK    bool
	Class string
	Msg   string
	Panic bool
}

// Guard runs f, turning an error or a panic into an Outcome.
func Guard(f func() error) Outcome { return guard(f) }

func guard(f func() error) (o Outcome) {
	defer func() {
		if r := recover(); r != nil {
			o = Outcome{OK: false, Class: "panic", Msg: fmt.Sprint(r), Panic: true}
		}
	}()
	err := f()
	if err != nil {
		return Outcome{OK: false, Class: ErrClass(err), Msg: err.Error()}
	}
	return Outcome{OK: true}
}

// Sess is one live Parser plus the Document objects handed to it.
type Sess struct {
	P    *bkl.Parser
	Objs map[string]*bkl.Document
}

func NewSess() *Sess {
	p, err := bkl.New()
	if err != nil {
		panic(err)
	}
	return &Sess{P: p, Objs: map[string]*bkl.Document{}}
}

// MergeDocument builds a fresh Document (data copied from the tagged tree)
// with the given parents (by id; they must have been merged before) and
// merges it.
func (s *Sess) MergeDocument(id string, parents []string, data tv.T) Outcome {
	doc := bkl.NewDocumentWithData(id, tv.ToGo(data))
	for _, pid := range parents {
		p, ok := s.Objs[pid]
		if !ok {
			panic("unknown parent id " + pid)
		}
		doc.AddParents(p)
	}
	s.Objs[id] = doc
	return guard(func() error { return s.P.MergeDocument(doc) })
}

// Docs projects Documents(): [{id, data}].
func (s *Sess) Docs() []any {
	out := []any{}
	for _, d := range s.P.Documents() {
		out = append(out, map[string]any{"id": d.ID, "data": tv.FromGo(d.Data)})
	}
	return out
}

// OutputDocuments evaluates; outs are tagged trees.
func (s *Sess) OutputDocuments() (Outcome, []any) {
	var outs []any
	o := guard(func() error {
		vs, err := s.P.OutputDocuments()
		if err != nil {
			return err
		}
		outs = make([]any, len(vs))
		for i, v := range vs {
			outs[i] = tv.FromGo(v)
		}
		return nil
	})
	if !o.OK {
		return o, nil
	}
	return o, outs
}

func (s *Sess) Output(format string) (Outcome, []byte) {
	var b []byte
	o := guard(func() error {
		var err error
		b, err = s.P.Output(format)
		return err
	})
	return o, b
}

var envMu sync.Mutex

// WithEnv runs f with exactly the given variables set (others untouched);
// evaluation reads os.Environ, so callers are serialised.
func WithEnv(env map[string]string, f func()) {
	envMu.Lock()
	defer envMu.Unlock()
	old := map[string]*string{}
	for k, v := range env {
		if ov, ok := os.LookupEnv(k); ok {
			ovc := ov
			old[k] = &ovc
		} else {
			old[k] = nil
		}
		os.Setenv(k, v)
	}
	defer func() {
		for k, ov := range old {
			if ov == nil {
				os.Unsetenv(k)
			} else {
				os.Setenv(k, *ov)
			}
		}
	}()
	f()
}

// EvalStream evaluates a stream of already merged documents in a fresh
// parser: each document is appended (no parents), then OutputDocuments.
// Documents must not carry a root-level $match (generators guarantee it).
func EvalStream(docs []tv.T, env map[string]string) (Outcome, []any) {
	var o Outcome
	var outs []any
	WithEnv(env, func() {
		s := NewSess()
		for i, d := range docs {
			mo := s.MergeDocument(fmt.Sprintf("d%d", i), nil, d)
			if !mo.OK {
				o = mo
				return
			}
		}
		o, outs = s.OutputDocuments()
	})
	return o, outs
}
