// Package tv converts between Go values as bkl handles them (any) and the
// tagged-tuple encoding of trees used by the TLA+ specification:
//
//	["m",{k:T}] ["l",[T]] ["s","x"] ["i","-42"] ["f","0.1"] ["b","true"] ["n",""]
package tv

import (
	"bytes"
	"encoding/json"
	"fmt"
	"math"
	"sort"
	"strconv"
	"time"
	"unicode/utf16"
)

// T is a tagged tree: a 2-element slice [tag, payload].
type T = []any

func tag(t string, p any) T { return T{t, p} }

// FromGo projects a Go value onto the tagged encoding.
func FromGo(v any) T {
	switch x := v.(type) {
	case nil:
		return tag("n", "")
	case map[string]any:
		m := make(map[string]any, len(x))
		for k, e := range x {
			m[k] = FromGo(e)
		}
		return tag("m", m)
	case []any:
		l := make([]any, len(x))
		for i, e := range x {
			l[i] = FromGo(e)
		}
		return tag("l", l)
	case []map[string]any:
		l := make([]any, len(x))
		for i, e := range x {
			l[i] = FromGo(e)
		}
		return tag("l", l)
	case string:
		return tag("s", x)
	case bool:
		if x {
			return tag("b", "true")
		}
		return tag("b", "false")
	case int:
		return tag("i", strconv.FormatInt(int64(x), 10))
	case int64:
		return tag("i", strconv.FormatInt(x, 10))
	case int32:
		return tag("i", strconv.FormatInt(int64(x), 10))
	case uint64:
		return tag("i", strconv.FormatUint(x, 10))
	case float64:
		return tag("f", FloatToken(x))
	case float32:
		return tag("f", FloatToken(float64(x)))
	case json.Number:
		return tag("jn", string(x))
	case time.Time:
		return tag("t", x.Format(time.RFC3339Nano))
	default:
		return tag("?", fmt.Sprintf("%T", v))
	}
}

// Strict is like FromGo but distinguishes the Go integer types, for checks
// that care (C04: an int64 is not an int for bkl's comparisons).
func GoTypeAnomalies(v any, path string, out *[]string) {
	switch x := v.(type) {
	case map[string]any:
		for k, e := range x {
			GoTypeAnomalies(e, path+"."+k, out)
		}
	case []any:
		for i, e := range x {
			GoTypeAnomalies(e, fmt.Sprintf("%s[%d]", path, i), out)
		}
	case nil, string, bool, int, float64:
	default:
		*out = append(*out, fmt.Sprintf("%s: %T", path, v))
	}
}

func FloatToken(f float64) string {
	if math.IsInf(f, 0) || math.IsNaN(f) {
		return fmt.Sprintf("%v", f)
	}
	return strconv.FormatFloat(f, 'g', -1, 64)
}

// ToGo builds the Go value bkl would hold for a tagged tree.
func ToGo(t any) any {
	tt, ok := t.([]any)
	if !ok || len(tt) != 2 {
		panic(fmt.Sprintf("tv.ToGo: not a tagged tree: %#v", t))
	}
	tg, _ := tt[0].(string)
	switch tg {
	case "n":
		return nil
	case "m":
		out := map[string]any{}
		switch p := tt[1].(type) {
		case map[string]any:
			for k, e := range p {
				out[k] = ToGo(e)
			}
		case []any: // TLC prints the empty function as []
			if len(p) != 0 {
				panic("tv.ToGo: map payload is a non-empty array")
			}
		}
		return out
	case "l":
		p, _ := tt[1].([]any)
		out := make([]any, len(p))
		for i, e := range p {
			out[i] = ToGo(e)
		}
		return out
	case "s":
		return tt[1].(string)
	case "b":
		return tt[1].(string) == "true"
	case "i":
		n, err := strconv.ParseInt(tt[1].(string), 10, 64)
		if err != nil {
			panic(err)
		}
		return int(n)
	case "f":
		f, err := strconv.ParseFloat(tt[1].(string), 64)
		if err != nil {
			panic(err)
		}
		return f
	}
	panic("tv.ToGo: unknown tag " + tg)
}

// Equal compares two tagged trees structurally.
func Equal(a, b any) bool {
	return bytes.Equal(Canon(a), Canon(b))
}

// Canon renders a tagged tree (or any JSON-able value) canonically: sorted
// keys, ASCII only, empty map payload always {}.
func Canon(v any) []byte {
	var buf bytes.Buffer
	canon(&buf, v, false)
	return buf.Bytes()
}

func canon(buf *bytes.Buffer, v any, mapPayload bool) {
	switch x := v.(type) {
	case map[string]any:
		keys := make([]string, 0, len(x))
		for k := range x {
			keys = append(keys, k)
		}
		sort.Strings(keys)
		buf.WriteByte('{')
		for i, k := range keys {
			if i > 0 {
				buf.WriteByte(',')
			}
			writeString(buf, k)
			buf.WriteByte(':')
			canon(buf, x[k], false)
		}
		buf.WriteByte('}')
	case []any:
		if mapPayload && len(x) == 0 {
			buf.WriteString("{}")
			return
		}
		buf.WriteByte('[')
		isMap := len(x) == 2 && x[0] == "m"
		for i, e := range x {
			if i > 0 {
				buf.WriteByte(',')
			}
			canon(buf, e, isMap && i == 1)
		}
		buf.WriteByte(']')
	case T2:
		canon(buf, []any(x), false)
	case []T:
		buf.WriteByte('[')
		for i, e := range x {
			if i > 0 {
				buf.WriteByte(',')
			}
			canon(buf, []any(e), false)
		}
		buf.WriteByte(']')
	case []string:
		buf.WriteByte('[')
		for i, e := range x {
			if i > 0 {
				buf.WriteByte(',')
			}
			writeString(buf, e)
		}
		buf.WriteByte(']')
	case map[string]string:
		m := map[string]any{}
		for k, e := range x {
			m[k] = e
		}
		canon(buf, m, false)
	case []map[string]any:
		buf.WriteByte('[')
		for i, e := range x {
			if i > 0 {
				buf.WriteByte(',')
			}
			canon(buf, e, false)
		}
		buf.WriteByte(']')
	case string:
		writeString(buf, x)
	case bool:
		if x {
			buf.WriteString("true")
		} else {
			buf.WriteString("false")
		}
	case int:
		buf.WriteString(strconv.Itoa(x))
	case int64:
		buf.WriteString(strconv.FormatInt(x, 10))
	case float64:
		if x == math.Trunc(x) && math.Abs(x) < 1e15 {
			buf.WriteString(strconv.FormatInt(int64(x), 10))
		} else {
			buf.WriteString(strconv.FormatFloat(x, 'g', -1, 64))
		}
	case nil:
		buf.WriteString("null")
	default:
		b, err := json.Marshal(x)
		if err != nil {
			panic(err)
		}
		var y any
		if err := json.Unmarshal(b, &y); err != nil {
			panic(err)
		}
		canon(buf, y, false)
	}
}

// T2 exists only so that Canon accepts named slices.
type T2 []any

const hexdigits = "0123456789abcdef"

func writeString(buf *bytes.Buffer, s string) {
	buf.WriteByte('"')
	for _, r := range s {
		switch {
		case r == '"':
			buf.WriteString(`\"`)
		case r == '\\':
			buf.WriteString(`\\`)
		case r == '\n':
			buf.WriteString(`\n`)
		case r == '\r':
			buf.WriteString(`\r`)
		case r == '\t':
			buf.WriteString(`\t`)
		case r < 0x20 || r == 0x7f:
			fmt.Fprintf(buf, `\u%04x`, r)
		case r < 0x7f:
			buf.WriteRune(r)
		case r <= 0xffff:
			fmt.Fprintf(buf, `\u%04x`, r)
		default:
			r1, r2 := utf16.EncodeRune(r)
			fmt.Fprintf(buf, `\u%04x\u%04x`, r1, r2)
		}
	}
	buf.WriteByte('"')
}

// Pretty renders a tagged tree as compact ordinary JSON-ish text for humans.
func Pretty(t any) string {
	defer func() { _ = recover() }()
	b, err := json.Marshal(plain(t))
	if err != nil {
		return fmt.Sprintf("%v", t)
	}
	return string(b)
}

func plain(t any) any {
	tt, ok := t.([]any)
	if !ok || len(tt) != 2 {
		return t
	}
	switch tt[0] {
	case "m":
		out := map[string]any{}
		if p, ok := tt[1].(map[string]any); ok {
			for k, e := range p {
				out[k] = plain(e)
			}
		}
		return out
	case "l":
		p, _ := tt[1].([]any)
		out := make([]any, len(p))
		for i, e := range p {
			out[i] = plain(e)
		}
		return out
	case "s":
		return tt[1]
	case "n":
		return nil
	case "b":
		return tt[1] == "true"
	case "i", "f":
		return json.Number(tt[1].(string))
	}
	return fmt.Sprintf("<%v %v>", tt[0], tt[1])
}

// Chars collects every character used in keys and strings of tagged trees,
// for the CharOrder header of a trace.
func Chars(set map[rune]bool, v any) {
	switch x := v.(type) {
	case map[string]any:
		for k, e := range x {
			for _, r := range k {
				set[r] = true
			}
			Chars(set, e)
		}
	case []any:
		for _, e := range x {
			Chars(set, e)
		}
	case string:
		for _, r := range x {
			set[r] = true
		}
	case map[string]string:
		for k, e := range x {
			Chars(set, k)
			Chars(set, e)
		}
	case []string:
		for _, e := range x {
			Chars(set, e)
		}
	}
}
