// Package fsx materialises model file systems in scratch directories, writes
// layer files in the three formats and runs the real binaries on them.
package fsx

import (
	"bytes"
	"context"
	"encoding/json"
	"fmt"
	"math"
	"os"
	"os/exec"
	"path/filepath"
	"regexp"
	"sort"
	"strconv"
	"strings"
	"syscall"
	"time"

	toml "github.com/pelletier/go-toml/v2"
	"gopkg.in/yaml.v3"

	"bklverif/tv"
)

// Entry is one node of a model file system.
type Entry struct {
	Kind   string `json:"kind"` // file | symlink | other
	Docs   []tv.T `json:"docs,omitempty"`
	Target string `json:"target,omitempty"`
	Raw    []byte `json:"-"` // explicit bytes (overrides Docs)
}

// ErrUnrepresentable: the documents cannot be written in the file's format.
var ErrUnrepresentable = fmt.Errorf("documents not representable in this format")

func hasNull(v any) bool {
	switch x := v.(type) {
	case nil:
		return true
	case map[string]any:
		for _, e := range x {
			if hasNull(e) {
				return true
			}
		}
	case []any:
		for _, e := range x {
			if hasNull(e) {
				return true
			}
		}
	}
	return false
}

// Encode writes documents in the format named by ext, with encoders that
// are independent of bkl's own format code.
func Encode(ext string, docs []tv.T) ([]byte, error) {
	var buf bytes.Buffer
	switch ext {
	case "json", "jsonl":
		for _, d := range docs {
			b, err := json.Marshal(wholeFloatsJSON(tv.ToGo(d)))
			if err != nil {
				return nil, err
			}
			buf.Write(b)
			buf.WriteByte('\n')
		}
	case "yaml", "yml":
		for i, d := range docs {
			if i > 0 {
				buf.WriteString("---\n")
			}
			v := tv.ToGo(d)
			if v == nil {
				continue
			}
			// yaml.v3 writes the string "<<" unquoted (a merge key for every
			// reader); quote it so that the file means the intended tree
			n := &yaml.Node{}
			if err := n.Encode(wholeFloatsYAML(v)); err != nil {
				return nil, err
			}
			QuoteMergeStrings(n)
			b, err := yaml.Marshal(n)
			if err != nil {
				return nil, err
			}
			buf.Write(b)
		}
	case "toml":
		for i, d := range docs {
			if i > 0 {
				buf.WriteString("---\n")
			}
			v := tv.ToGo(d)
			m, ok := v.(map[string]any)
			if !ok || hasNull(v) {
				return nil, ErrUnrepresentable
			}
			b, err := toml.Marshal(m)
			if err != nil {
				return nil, ErrUnrepresentable
			}
			buf.Write(b)
		}
	default:
		return nil, fmt.Errorf("unknown extension %q", ext)
	}
	return buf.Bytes(), nil
}

// A whole-valued double (3.0) must stay a double in the file: encoding/json and
// yaml.v3 print it as "3", which every reader takes for an integer.
func wholeFloatsJSON(v any) any {
	switch x := v.(type) {
	case float64:
		if x == math.Trunc(x) && math.Abs(x) < 1e21 {
			return json.RawMessage(strconv.FormatFloat(x, 'f', 1, 64))
		}
	case map[string]any:
		m := make(map[string]any, len(x))
		for k, e := range x {
			m[k] = wholeFloatsJSON(e)
		}
		return m
	case []any:
		l := make([]any, len(x))
		for i, e := range x {
			l[i] = wholeFloatsJSON(e)
		}
		return l
	}
	return v
}

// yamlWhole is a whole-valued double that yaml.v3 must write as "3.0" (it would
// encode float64(3) as the integer 3).
type yamlWhole float64

func (w yamlWhole) MarshalYAML() (interface{}, error) {
	return &yaml.Node{Kind: yaml.ScalarNode, Tag: "!!float", Value: strconv.FormatFloat(float64(w), 'f', 1, 64)}, nil
}

func wholeFloatsYAML(v any) any {
	switch x := v.(type) {
	case float64:
		if x == math.Trunc(x) && math.Abs(x) < 1e15 {
			return yamlWhole(x)
		}
	case map[string]any:
		m := make(map[string]any, len(x))
		for k, e := range x {
			m[k] = wholeFloatsYAML(e)
		}
		return m
	case []any:
		l := make([]any, len(x))
		for i, e := range x {
			l[i] = wholeFloatsYAML(e)
		}
		return l
	}
	return v
}

// QuoteMergeStrings double-quotes every string scalar "<<" of a node tree.
func QuoteMergeStrings(n *yaml.Node) {
	if n.Kind == yaml.ScalarNode && n.Value == "<<" && n.Tag != "!!merge" {
		n.Tag = "!!str"
		n.Style = yaml.DoubleQuotedStyle
	}
	if n.Kind == yaml.ScalarNode && n.Value == "<<" && n.Tag == "!!merge" && n.Style == 0 {
		// Node.Encode tags the plain string "<<" as a merge key as well
		n.Tag = "!!str"
		n.Style = yaml.DoubleQuotedStyle
	}
	for _, c := range n.Content {
		QuoteMergeStrings(c)
	}
}

func Ext(p string) string { return strings.TrimPrefix(filepath.Ext(p), ".") }

// Materialize creates the model file system under base (model path "/w/x"
// becomes base+"/w/x"). Absolute symlink targets are re-rooted under base.
func Materialize(base string, fs map[string]Entry) error {
	paths := make([]string, 0, len(fs))
	for p := range fs {
		paths = append(paths, p)
	}
	sort.Strings(paths)
	for _, p := range paths {
		e := fs[p]
		real := filepath.Join(base, p)
		if err := os.MkdirAll(filepath.Dir(real), 0o755); err != nil {
			return err
		}
		switch e.Kind {
		case "file", "other":
			b := e.Raw
			if b == nil && e.Kind == "other" {
				b = []byte("not a layer file\n")
			}
			if b == nil {
				var err error
				b, err = Encode(Ext(p), e.Docs)
				if err != nil {
					return err
				}
			}
			if err := os.WriteFile(real, b, 0o644); err != nil {
				return err
			}
		case "symlink":
			t := e.Target
			if strings.HasPrefix(t, "/") {
				t = filepath.Join(base, t)
			}
			if err := os.Symlink(t, real); err != nil {
				return err
			}
		}
	}
	return nil
}

// RunResult is what a process did, in the vocabulary of the protocol machine.
type RunResult struct {
	Exit     int
	Stdout   []byte
	Stderr   []byte
	TimedOut bool
	Signaled bool
	Panicked bool
	Reads    []string    // with strace: paths whose content was read
	Steps    [][2]string // filled by callers that parse a step log
	WallS    float64
}

var rePanic = regexp.MustCompile(`(?m)^(panic:|fatal error:|goroutine \d+ \[)`)

// Run executes argv in cwd with exactly env (plus PATH/HOME/TMPDIR), a
// timeout and an address-space limit.
func Run(cwd string, argv []string, env map[string]string, stdin []byte, timeout time.Duration, trace bool) RunResult {
	ctx, cancel := context.WithTimeout(context.Background(), timeout)
	defer cancel()
	var traceFile string
	args := argv
	if trace {
		traceFile = filepath.Join(cwd, fmt.Sprintf(".strace.%d", time.Now().UnixNano()))
		args = append([]string{"strace", "-f", "-y", "-qq", "-e", "trace=read,pread64,readv,preadv,preadv2,mmap", "-o", traceFile}, argv...)
	}
	cmd := exec.CommandContext(ctx, args[0], args[1:]...)
	cmd.Dir = cwd
	cmd.Env = []string{"PATH=" + os.Getenv("PATH"), "HOME=" + cwd, "TMPDIR=" + cwd}
	for k, v := range env {
		cmd.Env = append(cmd.Env, k+"="+v)
	}
	cmd.SysProcAttr = &syscall.SysProcAttr{Setpgid: true}
	cmd.Cancel = func() error { return syscall.Kill(-cmd.Process.Pid, syscall.SIGKILL) }
	if stdin != nil {
		cmd.Stdin = bytes.NewReader(stdin)
	}
	var so, se bytes.Buffer
	cmd.Stdout, cmd.Stderr = &so, &se
	t0 := time.Now()
	err := cmd.Run()
	r := RunResult{Stdout: so.Bytes(), Stderr: se.Bytes(), WallS: time.Since(t0).Seconds()}
	if ctx.Err() != nil {
		r.TimedOut = true
	}
	if err != nil {
		if ee, ok := err.(*exec.ExitError); ok {
			r.Exit = ee.ExitCode()
			if ws, ok := ee.Sys().(syscall.WaitStatus); ok && ws.Signaled() {
				r.Signaled = true
			}
		} else {
			r.Exit = -1
		}
	}
	r.Panicked = rePanic.Match(r.Stderr) || r.Exit == 2 && bytes.Contains(r.Stderr, []byte("goroutine "))
	if trace {
		r.Reads = parseStrace(traceFile)
		os.Remove(traceFile)
	}
	return r
}

var reRead = regexp.MustCompile(`^\d+\s+(?:read|pread64|readv|preadv2?)\((\d+)<([^>]*)>`)
var reMmap = regexp.MustCompile(`^\d+\s+mmap\(.*, (\d+)<([^>]*)>, `)

func parseStrace(path string) []string {
	b, err := os.ReadFile(path)
	if err != nil {
		return nil
	}
	set := map[string]bool{}
	for _, line := range strings.Split(string(b), "\n") {
		if m := reRead.FindStringSubmatch(line); m != nil {
			set[m[2]] = true
		} else if m := reMmap.FindStringSubmatch(line); m != nil {
			set[m[2]] = true
		}
	}
	out := []string{}
	for p := range set {
		out = append(out, p)
	}
	sort.Strings(out)
	return out
}

// DecodeJSONStream parses a JSON stream into tagged trees (independent of bkl).
func DecodeJSONStream(b []byte) ([]any, error) {
	dec := json.NewDecoder(bytes.NewReader(b))
	dec.UseNumber()
	out := []any{}
	for dec.More() {
		var v any
		if err := dec.Decode(&v); err != nil {
			return nil, err
		}
		out = append(out, TagJSON(v))
	}
	return out, nil
}

func TagJSON(v any) any {
	switch x := v.(type) {
	case map[string]any:
		m := map[string]any{}
		for k, e := range x {
			m[k] = TagJSON(e)
		}
		return tv.T{"m", m}
	case []any:
		l := make([]any, len(x))
		for i, e := range x {
			l[i] = TagJSON(e)
		}
		return tv.T{"l", l}
	case json.Number:
		s := string(x)
		if !strings.ContainsAny(s, ".eE") {
			return tv.T{"i", s}
		}
		f, _ := x.Float64()
		return tv.T{"f", tv.FloatToken(f)}
	default:
		return tv.FromGo(v)
	}
}
