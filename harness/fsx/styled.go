package fsx

import (
	"bytes"
	"encoding/json"
	"fmt"
	"regexp"
	"sort"
	"strconv"
	"strings"

	"gopkg.in/yaml.v3"

	"bklverif/tv"
)

// EncodeStyled writes documents in stylistic variants of a format that mean
// the same tree: YAML flow style, anchors and aliases for repeated subtrees,
// merge keys; TOML dotted keys and inline tables. The caller verifies with
// the independent decoder that the text means the intended tree.
func EncodeStyled(ext string, docs []tv.T, style string) ([]byte, error) {
	if style == "crlf" {
		// the same text with Windows line endings
		b, err := Encode(ext, docs)
		if err != nil {
			return nil, err
		}
		return bytes.ReplaceAll(b, []byte("\n"), []byte("\r\n")), nil
	}
	switch ext {
	case "yaml", "yml":
		var buf bytes.Buffer
		for i, d := range docs {
			if i > 0 {
				if style == "sepcomment" {
					// a document start marker may carry a comment (or trailing blanks)
					buf.WriteString([]string{"--- # next document\n", "--- \n", "---\t# x\n"}[i%3])
				} else {
					buf.WriteString("---\n")
				}
			}
			n := &yaml.Node{}
			if err := n.Encode(wholeFloatsYAML(tv.ToGo(d))); err != nil {
				return nil, err
			}
			QuoteMergeStrings(n)
			switch style {
			case "docstart":
				// the standard explicit document start marker, also before the first document
				if i == 0 {
					buf.WriteString("---\n")
				}
			case "plainkeys":
				plainKeys(n)
			case "flow":
				setFlow(n)
			case "anchors":
				addAnchors(n)
			case "merge":
				addMergeKeys(n)
			}
			b, err := yaml.Marshal(n)
			if err != nil {
				return nil, err
			}
			buf.Write(b)
		}
		return buf.Bytes(), nil
	case "toml":
		var buf bytes.Buffer
		for i, d := range docs {
			if i > 0 {
				if style == "plus" {
					buf.WriteString("+++\n") // the other separator bkl accepts in TOML streams
				} else {
					buf.WriteString("---\n")
				}
			}
			m, ok := tv.ToGo(d).(map[string]any)
			if !ok || hasNull(m) {
				return nil, ErrUnrepresentable
			}
			if err := tomlWrite(&buf, nil, m, style); err != nil {
				return nil, err
			}
		}
		return buf.Bytes(), nil
	}
	return Encode(ext, docs)
}

// PlainKeyStrings are map keys that a YAML writer may leave unquoted although they
// would resolve to a number or boolean as values; bkl reads a key as its text.
var PlainKeyStrings = []string{"1.10", "2.0", "+5", "1e3", "True", "010", "0x1F", "1.9"}

func plainKeys(n *yaml.Node) {
	if n.Kind == yaml.MappingNode {
		for i := 0; i+1 < len(n.Content); i += 2 {
			k := n.Content[i]
			for _, s := range PlainKeyStrings {
				if k.Kind == yaml.ScalarNode && k.Value == s {
					k.Style = 0
					k.Tag = "" // written as is: `1.10: v`
				}
			}
		}
	}
	for _, c := range n.Content {
		plainKeys(c)
	}
}

func setFlow(n *yaml.Node) {
	if n.Kind == yaml.MappingNode || n.Kind == yaml.SequenceNode {
		n.Style = yaml.FlowStyle
	}
	for _, c := range n.Content {
		setFlow(c)
	}
}

func nodeKey(n *yaml.Node) string {
	b, _ := yaml.Marshal(n)
	return string(b)
}

// addAnchors: a container subtree that occurs again later becomes an alias.
func addAnchors(root *yaml.Node) {
	seen := map[string]*yaml.Node{}
	count := 0
	var walk func(n *yaml.Node)
	walk = func(n *yaml.Node) {
		for i, c := range n.Content {
			if n.Kind == yaml.MappingNode && i%2 == 0 {
				continue // keys
			}
			if (c.Kind == yaml.MappingNode || c.Kind == yaml.SequenceNode) && len(c.Content) > 0 {
				k := nodeKey(c)
				if first, ok := seen[k]; ok {
					if first.Anchor == "" {
						count++
						first.Anchor = fmt.Sprintf("a%d", count)
					}
					n.Content[i] = &yaml.Node{Kind: yaml.AliasNode, Alias: first, Value: first.Anchor}
					continue
				}
				seen[k] = c
			}
			walk(c)
		}
	}
	walk(root)
}

// addMergeKeys: inside one mapping, a child map that contains all entries of
// an earlier sibling map is written as `<<: *anchor` plus the rest.
func addMergeKeys(root *yaml.Node) {
	count := 0
	var walk func(n *yaml.Node)
	walk = func(n *yaml.Node) {
		if n.Kind == yaml.MappingNode {
			for i := 1; i < len(n.Content); i += 2 {
				a := n.Content[i]
				if a.Kind != yaml.MappingNode || len(a.Content) == 0 {
					continue
				}
				for j := i + 2; j < len(n.Content); j += 2 {
					b := n.Content[j]
					if b.Kind != yaml.MappingNode || len(b.Content) <= len(a.Content) || b.Content[0].Value == "<<" {
						continue
					}
					if rest, ok := supersetRest(b, a); ok {
						if a.Anchor == "" {
							count++
							a.Anchor = fmt.Sprintf("m%d", count)
						}
						merged := []*yaml.Node{{Kind: yaml.ScalarNode, Tag: "!!merge", Value: "<<"}, {Kind: yaml.AliasNode, Alias: a, Value: a.Anchor}}
						b.Content = append(merged, rest...)
					}
				}
			}
		}
		for _, c := range n.Content {
			if c.Kind != yaml.AliasNode {
				walk(c)
			}
		}
	}
	walk(root)
}

func supersetRest(b, a *yaml.Node) ([]*yaml.Node, bool) {
	am := map[string]string{}
	for i := 0; i+1 < len(a.Content); i += 2 {
		am[a.Content[i].Value] = nodeKey(a.Content[i+1])
	}
	var rest []*yaml.Node
	hit := 0
	for i := 0; i+1 < len(b.Content); i += 2 {
		k := b.Content[i].Value
		if v, ok := am[k]; ok && v == nodeKey(b.Content[i+1]) {
			hit++
			continue
		}
		if _, ok := am[k]; ok {
			return nil, false // same key, other value: the explicit entry would have to override; keep it simple
		}
		rest = append(rest, b.Content[i], b.Content[i+1])
	}
	return rest, hit == len(am)
}

var bareKey = regexp.MustCompile(`^[A-Za-z0-9_-]+$`)

func tomlKey(k string) string {
	if bareKey.MatchString(k) {
		return k
	}
	b, _ := json.Marshal(k)
	return string(b)
}

func tomlScalar(v any) (string, bool) {
	switch x := v.(type) {
	case string:
		b, _ := json.Marshal(x)
		s := string(b)
		// JSON escapes that TOML basic strings do not know
		s = strings.ReplaceAll(s, `<`, "<")
		s = strings.ReplaceAll(s, `>`, ">")
		s = strings.ReplaceAll(s, `&`, "&")
		return s, true
	case bool:
		return strconv.FormatBool(x), true
	case int:
		return strconv.Itoa(x), true
	case float64:
		s := strconv.FormatFloat(x, 'g', -1, 64)
		if !strings.ContainsAny(s, ".eE") {
			s += ".0"
		}
		if i := strings.IndexAny(s, "eE"); i > 0 && !strings.Contains(s[:i], ".") {
			s = s[:i] + ".0" + s[i:]
		}
		return s, true
	}
	return "", false
}

func tomlInline(v any) (string, error) {
	switch x := v.(type) {
	case map[string]any:
		keys := make([]string, 0, len(x))
		for k := range x {
			keys = append(keys, k)
		}
		sort.Strings(keys)
		parts := []string{}
		for _, k := range keys {
			s, err := tomlInline(x[k])
			if err != nil {
				return "", err
			}
			parts = append(parts, tomlKey(k)+" = "+s)
		}
		return "{ " + strings.Join(parts, ", ") + " }", nil
	case []any:
		parts := []string{}
		for _, e := range x {
			s, err := tomlInline(e)
			if err != nil {
				return "", err
			}
			parts = append(parts, s)
		}
		return "[" + strings.Join(parts, ", ") + "]", nil
	default:
		s, ok := tomlScalar(v)
		if !ok {
			return "", ErrUnrepresentable
		}
		return s, nil
	}
}

// tomlWrite: style "dotted" writes nested maps as dotted keys at the top
// level, "inline" as inline tables; lists always as inline arrays.
func tomlWrite(buf *bytes.Buffer, prefix []string, m map[string]any, style string) error {
	keys := make([]string, 0, len(m))
	for k := range m {
		keys = append(keys, k)
	}
	sort.Strings(keys)
	for _, k := range keys {
		path := append(append([]string{}, prefix...), tomlKey(k))
		switch x := m[k].(type) {
		case map[string]any:
			if style == "dotted" && len(x) > 0 {
				if err := tomlWrite(buf, path, x, style); err != nil {
					return err
				}
				continue
			}
			s, err := tomlInline(x)
			if err != nil {
				return err
			}
			fmt.Fprintf(buf, "%s = %s\n", strings.Join(path, "."), s)
		default:
			s, err := tomlInline(x)
			if err != nil {
				return err
			}
			fmt.Fprintf(buf, "%s = %s\n", strings.Join(path, "."), s)
		}
	}
	return nil
}
