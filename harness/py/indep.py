#!/usr/bin/env python3
"""Independent decoders for the bkl verification harness.

Reads one JSON request per line on stdin, writes one JSON response per line:
  {"op": "decode", "fmt": "json|yaml|toml", "text": "..."}  ->  {"ok": true, "docs": [tagged trees]}
Trees are tagged like the TLA+ specification's: ["m",{..}] ["l",[..]] ["s",".."] ["i","42"]
["f","<repr>"] ["b","true"] ["n",""].  Nothing here shares code with gopatchy/bkl:
json = Python json, yaml = PyYAML with a YAML 1.2 core-schema resolver, toml = tomllib.
"""
import sys, json, re, math
import yaml, tomllib


class CoreLoader(yaml.SafeLoader):
    pass


# drop the YAML 1.1 implicit resolvers (yes/no booleans, sexagesimals, timestamps ...)
CoreLoader.yaml_implicit_resolvers = {}
CoreLoader.add_implicit_resolver('tag:yaml.org,2002:null', re.compile(r'^(?:~|null|Null|NULL|)$'), ['~', 'n', 'N', ''])
CoreLoader.add_implicit_resolver('tag:yaml.org,2002:bool', re.compile(r'^(?:true|True|TRUE|false|False|FALSE)$'), list('tTfF'))
CoreLoader.add_implicit_resolver('tag:yaml.org,2002:int', re.compile(r'^(?:[-+]?[0-9]+|0o[0-7]+|0x[0-9a-fA-F]+)$'), list('-+0123456789'))
CoreLoader.add_implicit_resolver('tag:yaml.org,2002:float', re.compile(
    r'^(?:[-+]?(?:\.[0-9]+|[0-9]+(?:\.[0-9]*)?)(?:[eE][-+]?[0-9]+)?|[-+]?\.(?:inf|Inf|INF)|\.(?:nan|NaN|NAN))$'), list('-+0123456789.'))
CoreLoader.add_implicit_resolver('tag:yaml.org,2002:merge', re.compile(r'^(?:<<)$'), ['<'])


def construct_int(loader, node):
    v = loader.construct_scalar(node)
    if v.startswith('0o'):
        return int(v[2:], 8)
    if v.startswith('0x'):
        return int(v[2:], 16)
    return int(v)


def construct_float(loader, node):
    v = loader.construct_scalar(node).lower()
    if v in ('.inf', '+.inf'):
        return math.inf
    if v == '-.inf':
        return -math.inf
    if v == '.nan':
        return math.nan
    return float(v)


CoreLoader.add_constructor('tag:yaml.org,2002:int', construct_int)
CoreLoader.add_constructor('tag:yaml.org,2002:float', construct_float)


class KeyTextLoader(CoreLoader):
    """bkl's documented reading of YAML mapping keys: a scalar key is the TEXT of the key as
    written (`1.10: x` has the key "1.10", `True: x` the key "True"); everything else as CoreLoader."""

    def construct_mapping(self, node, deep=False):
        if isinstance(node, yaml.MappingNode):
            self.flatten_mapping(node)
            for kn, _ in node.value:
                if isinstance(kn, yaml.ScalarNode) and kn.tag != 'tag:yaml.org,2002:merge':
                    kn.tag = 'tag:yaml.org,2002:str'
        return super().construct_mapping(node, deep=deep)


def tag(v):
    if v is None:
        return ["n", ""]
    if isinstance(v, bool):
        return ["b", "true" if v else "false"]
    if isinstance(v, int):
        if not (-2**63 <= v < 2**63):
            # JSON / TOML / YAML have one number type per notation; a whole number outside
            # the 64-bit integers is a double in bkl's data model
            return ["f", repr(float(v))]
        return ["i", str(v)]
    if isinstance(v, float):
        return ["f", repr(v)]
    if isinstance(v, str):
        return ["s", v]
    if isinstance(v, dict):
        out = {}
        for k, e in v.items():
            if not isinstance(k, str):
                raise ValueError("non-string key %r" % (k,))
            out[k] = tag(e)
        return ["m", out]
    if isinstance(v, (list, tuple)):
        return ["l", [tag(e) for e in v]]
    return ["t", str(v)]


def decode(fmt, text, keys=""):
    if fmt in ("json", "jsonl", "json-pretty"):
        dec = json.JSONDecoder()
        docs, i, n = [], 0, len(text)
        while True:
            while i < n and text[i] in " \t\r\n":
                i += 1
            if i >= n:
                break
            v, i = dec.raw_decode(text, i)
            docs.append(v)
        return docs
    if fmt in ("yaml", "yml"):
        return list(yaml.load_all(text, Loader=KeyTextLoader if keys == "text" else CoreLoader))
    if fmt == "toml":
        parts = re.split(r'(?m)^(?:\+\+\+|---)$', text)
        return [tomllib.loads(p) for p in parts]
    raise ValueError("unknown format " + fmt)


def main():
    for line in sys.stdin:
        line = line.strip()
        if not line:
            continue
        try:
            req = json.loads(line)
            if req.get("op") == "decode":
                docs = decode(req["fmt"], req["text"], req.get("keys", ""))
                resp = {"ok": True, "docs": [tag(d) for d in docs]}
            else:
                resp = {"ok": False, "err": "unknown op"}
        except Exception as e:  # a rejected text is an answer, not a failure of the helper
            resp = {"ok": False, "err": "%s: %s" % (type(e).__name__, e)}
        sys.stdout.write(json.dumps(resp) + "\n")
        sys.stdout.flush()


if __name__ == "__main__":
    main()
