// Package indep talks to the independent decoders (Python json, PyYAML with
// a YAML 1.2 core-schema resolver, tomllib) in harness/py/indep.py.
package indep

import (
	"bufio"
	"encoding/json"
	"fmt"
	"io"
	"os"
	"os/exec"
	"strconv"
	"sync"

	"bklverif/tv"
)

type proc struct {
	mu  sync.Mutex
	cmd *exec.Cmd
	in  io.WriteCloser
	out *bufio.Reader
}

var (
	pool   []*proc
	poolMu sync.Mutex
	next   int
)

var Script = home() + "/harness/py/indep.py"

func home() string {
	if h := os.Getenv("BKLV_HOME"); h != "" {
		return h
	}
	return "/verif"
}

func start() (*proc, error) {
	cmd := exec.Command("python3", Script)
	in, err := cmd.StdinPipe()
	if err != nil {
		return nil, err
	}
	out, err := cmd.StdoutPipe()
	if err != nil {
		return nil, err
	}
	if err := cmd.Start(); err != nil {
		return nil, err
	}
	return &proc{cmd: cmd, in: in, out: bufio.NewReaderSize(out, 1<<20)}, nil
}

func get() (*proc, error) {
	poolMu.Lock()
	defer poolMu.Unlock()
	if len(pool) < 8 {
		p, err := start()
		if err != nil {
			return nil, err
		}
		pool = append(pool, p)
		return p, nil
	}
	next++
	return pool[next%len(pool)], nil
}

// Decode parses text in the given format with the independent decoder.
// ok=false means the independent decoder rejects the text (msg says why);
// err != nil means the helper itself failed.
func Decode(format, text string) (docs []any, ok bool, msg string, err error) {
	return decode(format, text, "")
}

// DecodeKeyText is Decode with bkl's reading of YAML mapping keys: a scalar key is
// the text of the key as written (`1.10: x` has the key "1.10"), whatever it would
// resolve to as a value. Used only to confirm inputs written with plain keys.
func DecodeKeyText(format, text string) (docs []any, ok bool, msg string, err error) {
	return decode(format, text, "text")
}

func decode(format, text, keys string) (docs []any, ok bool, msg string, err error) {
	p, err := get()
	if err != nil {
		return nil, false, "", err
	}
	p.mu.Lock()
	defer p.mu.Unlock()
	req, _ := json.Marshal(map[string]any{"op": "decode", "fmt": format, "text": text, "keys": keys})
	if _, err := p.in.Write(append(req, '\n')); err != nil {
		return nil, false, "", err
	}
	line, err := p.out.ReadBytes('\n')
	if err != nil {
		return nil, false, "", fmt.Errorf("independent decoder died: %v", err)
	}
	var resp struct {
		OK   bool   `json:"ok"`
		Docs []any  `json:"docs"`
		Err  string `json:"err"`
	}
	if err := json.Unmarshal(line, &resp); err != nil {
		return nil, false, "", err
	}
	if !resp.OK {
		return nil, false, resp.Err, nil
	}
	for i := range resp.Docs {
		resp.Docs[i] = normFloats(resp.Docs[i])
	}
	return resp.Docs, true, "", nil
}

// normFloats rewrites float payloads (Python repr) in the canonical token.
func normFloats(t any) any {
	tt, ok := t.([]any)
	if !ok || len(tt) != 2 {
		return t
	}
	switch tt[0] {
	case "f":
		if f, err := strconv.ParseFloat(tt[1].(string), 64); err == nil {
			return tv.T{"f", tv.FloatToken(f)}
		}
		switch tt[1] {
		case "inf":
			return tv.T{"f", "+Inf"}
		case "-inf":
			return tv.T{"f", "-Inf"}
		case "nan":
			return tv.T{"f", "NaN"}
		}
	case "m":
		if m, ok := tt[1].(map[string]any); ok {
			for k, e := range m {
				m[k] = normFloats(e)
			}
		}
	case "l":
		if l, ok := tt[1].([]any); ok {
			for i, e := range l {
				l[i] = normFloats(e)
			}
		}
	}
	return t
}
