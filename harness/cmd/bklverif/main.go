package main

import (
	"fmt"
	"os"

	"bklverif/checks"
)

var table = map[string]func(*checks.Run){
	"C01":      checks.C01,
	"FIX":      checks.Fixtures,
	"SELFTEST": checks.Selftest,
	"C02":      checks.C02,
	"C19":      checks.C19,
	"C20":      checks.C20,
	"C14":      checks.C14,
	"C15":      checks.C15,
	"C16":      checks.C16,
	"C17":      checks.C17,
	"C18":      checks.C18,
	"C03":      checks.C03,
	"C04":      checks.C04,
	"C05":      checks.C05,
	"C06":      checks.C06,
	"C09":      checks.C09,
	"C08":      checks.C08,
	"C07":      checks.C07,
	"C10":      checks.C10,
	"C11":      checks.C11,
	"C12":      checks.C12,
	"C13":      checks.C13,
}

func main() {
	if len(os.Args) < 3 {
		fmt.Fprintln(os.Stderr, "usage: bklverif check <ID> [quick|thorough] | bklverif replay <ID> <path>")
		os.Exit(2)
	}
	switch os.Args[1] {
	case "check":
		id := os.Args[2]
		tier := "quick"
		if len(os.Args) > 3 {
			tier = os.Args[3]
		}
		f, ok := table[id]
		if !ok {
			fmt.Fprintln(os.Stderr, "unknown property", id)
			os.Exit(2)
		}
		r := checks.NewRun(id, tier)
		f(r)
		r.ReportKnown()
		r.Finish()
	case "replay":
		if len(os.Args) < 4 {
			fmt.Fprintln(os.Stderr, "usage: bklverif replay <ID> <path>")
			os.Exit(2)
		}
		os.Exit(checks.Replay(os.Args[2], os.Args[3]))
	case "race":
		checks.RaceWorker(os.Args[2])
	default:
		fmt.Fprintln(os.Stderr, "unknown command", os.Args[1])
		os.Exit(2)
	}
}
