module bklverif

go 1.24.0

require (
	github.com/gopatchy/bkl v0.0.0
	github.com/pelletier/go-toml/v2 v2.2.3
	gopkg.in/yaml.v3 v3.0.1
)

require golang.org/x/exp v0.0.0-20250210185358-939b2ce775ac // indirect

replace github.com/gopatchy/bkl => /repo
