// Package tlc runs TLC on the specification in /verif/spec: trace validation
// (BklTrace) and bounded models (MC_*), and parses what TLC reports.
package tlc

import (
	"bufio"
	"bytes"
	"context"
	"encoding/json"
	"fmt"
	"io"
	"os"
	"os/exec"
	"path/filepath"
	"regexp"
	"sort"
	"strconv"
	"strings"
	"sync"
	"time"
	"unicode"

	"bklverif/tv"
)

const (
	Jar     = "/opt/veriftools/tla/tla2tools.jar"
	JarDeps = "/opt/veriftools/tla/CommunityModules-deps.jar"
)

var SpecDir = home() + "/spec"

func home() string {
	if h := os.Getenv("BKLV_HOME"); h != "" {
		return h
	}
	return "/verif"
}

// LongRun selects the JVM flags for long model-checking runs.
var LongRun = false

// Stats is what one TLC run reported.
type Stats struct {
	Generated int64
	Distinct  int64
	Depth     int
	WallS     float64
	Cmd       string
}

type Bad struct {
	Line int    `json:"line"`
	Why  string `json:"why"`
}

// TraceResult is the outcome of validating one trace file.
// Need is a codec value the specification asked the environment for.
type Need struct {
	Line int    `json:"line"`
	Name string `json:"name"`
	Arg  any    `json:"arg"`
}

type TraceResult struct {
	Needs []Need
	Stats
	Events  int // events in the file
	Checked int // events whose result was compared by the specification
	Undef   int // events outside the modelled domain (no verdict)
	Bad     []Bad
	Dir     string
	Output  string
}

func copySpec(dir string) error {
	ents, err := os.ReadDir(SpecDir)
	if err != nil {
		return err
	}
	for _, e := range ents {
		if e.IsDir() || !(strings.HasSuffix(e.Name(), ".tla") || strings.HasSuffix(e.Name(), ".cfg")) {
			continue
		}
		b, err := os.ReadFile(filepath.Join(SpecDir, e.Name()))
		if err != nil {
			return err
		}
		if err := os.WriteFile(filepath.Join(dir, e.Name()), b, 0o644); err != nil {
			return err
		}
	}
	return nil
}

// Header builds the first line of a trace file from the events' characters.
func Header(family string, lines [][]byte, extra map[string]any) []byte {
	set := map[rune]bool{}
	for _, c := range "abcdefghijklmnopqrstuvwxyzABCDEFGHIJKLMNOPQRSTUVWXYZ0123456789_$.:-/|{}\"" {
		set[c] = true
	}
	for _, l := range lines {
		var v any
		if err := json.Unmarshal(l, &v); err != nil {
			panic(fmt.Sprintf("trace line is not JSON: %v: %s", err, l))
		}
		tv.Chars(set, v)
	}
	rs := make([]rune, 0, len(set))
	for r := range set {
		rs = append(rs, r)
	}
	sort.Slice(rs, func(i, j int) bool { return rs[i] < rs[j] })
	order := make([]any, len(rs))
	lower := []any{}
	for i, r := range rs {
		if r > 0xffff {
			panic("non-BMP character in trace")
		}
		order[i] = string(r)
		if unicode.IsLower(r) {
			lower = append(lower, string(r))
		}
	}
	h := map[string]any{"ev": "Header", "family": family, "charOrder": order, "lower": lower}
	for k, v := range extra {
		h[k] = v
	}
	return tv.Canon(h)
}

// javaArgs: short runs (trace validation) use the serial collector and the C1
// compiler only: measured 16 parallel validations 4.7 s instead of 23.6 s.
func javaArgs(dir string, xmx string, workers int, rest ...string) []string {
	args := []string{"-XX:+UseSerialGC", "-XX:TieredStopAtLevel=1"}
	if workers > 1 || LongRun {
		args = []string{"-XX:+UseParallelGC", "-XX:ParallelGCThreads=4"}
	}
	args = append(args,
		"-Xss768m", "-Xmx"+xmx,
		"-Dfile.encoding=UTF-8", "-Dstdout.encoding=UTF-8",
		"-Djava.io.tmpdir="+filepath.Join(dir, "jtmp"),
		"-cp", Jar+":"+JarDeps, "tlc2.TLC",
		"-workers", strconv.Itoa(workers), "-metadir", filepath.Join(dir, "md"))
	return append(args, rest...)
}

var (
	reStates = regexp.MustCompile(`(\d+) states generated, (\d+) distinct states found`)
	reDepth  = regexp.MustCompile(`depth of the complete state graph search is (\d+)`)
)

func parseStats(out string, st *Stats) {
	ms := reStates.FindAllStringSubmatch(out, -1)
	if len(ms) > 0 {
		m := ms[len(ms)-1]
		st.Generated, _ = strconv.ParseInt(m[1], 10, 64)
		st.Distinct, _ = strconv.ParseInt(m[2], 10, 64)
	}
	if m := reDepth.FindStringSubmatch(out); m != nil {
		st.Depth, _ = strconv.Atoi(m[1])
	}
}

// ValidateTrace writes header+lines to dir/trace.ndjson and runs BklTrace.
// A non-nil error means the machinery failed (never a verdict).
func ValidateTrace(dir, family string, lines [][]byte, extraHeader map[string]any, timeout time.Duration) (*TraceResult, error) {
	if err := os.MkdirAll(filepath.Join(dir, "jtmp"), 0o755); err != nil {
		return nil, err
	}
	if err := copySpec(dir); err != nil {
		return nil, err
	}
	var buf bytes.Buffer
	buf.Write(Header(family, lines, extraHeader))
	buf.WriteByte('\n')
	for _, l := range lines {
		buf.Write(l)
		buf.WriteByte('\n')
	}
	if err := os.WriteFile(filepath.Join(dir, "trace.ndjson"), buf.Bytes(), 0o644); err != nil {
		return nil, err
	}
	args := javaArgs(dir, "3g", 1, "-config", "BklTrace.cfg", "BklTrace.tla")
	ctx, cancel := context.WithTimeout(context.Background(), timeout)
	defer cancel()
	cmd := exec.CommandContext(ctx, "java", args...)
	cmd.Dir = dir
	t0 := time.Now()
	outb, err := cmd.CombinedOutput()
	out := string(outb)
	res := &TraceResult{Events: len(lines), Dir: dir, Output: out}
	res.WallS = time.Since(t0).Seconds()
	res.Cmd = "java " + strings.Join(args, " ")
	parseStats(out, &res.Stats)
	if ctx.Err() != nil {
		return res, fmt.Errorf("TLC timed out after %v in %s", timeout, dir)
	}
	rb, rerr := os.ReadFile(filepath.Join(dir, "result.json"))
	if rerr != nil {
		return res, fmt.Errorf("TLC produced no result.json in %s (exit: %v): %s", dir, err, tail(out, 40))
	}
	var r struct {
		L     int    `json:"l"`
		Nchk  int    `json:"nchk"`
		Undef int    `json:"undef"`
		Bad   []Bad  `json:"bad"`
		Needs []Need `json:"needs"`
	}
	if jerr := json.Unmarshal(rb, &r); jerr != nil {
		return res, fmt.Errorf("bad result.json: %v: %s", jerr, rb)
	}
	if r.L != len(lines)+3 {
		return res, fmt.Errorf("TLC consumed %d of %d trace lines in %s: %s", r.L-1, len(lines)+1, dir, tail(out, 40))
	}
	res.Checked = r.Nchk
	res.Undef = r.Undef
	res.Bad = r.Bad
	res.Needs = r.Needs
	sort.Slice(res.Bad, func(i, j int) bool { return res.Bad[i].Line < res.Bad[j].Line })
	return res, nil
}

func tail(s string, n int) string {
	ls := strings.Split(strings.TrimRight(s, "\n"), "\n")
	if len(ls) > n {
		ls = ls[len(ls)-n:]
	}
	return strings.Join(ls, "\n")
}

// Session is a group of consecutive trace lines that must stay together
// (one Parser session, starting with Reset, or a single stateless event).
type Session [][]byte

// ValidateSharded distributes sessions over `shards` TLC processes. The
// returned Bad entries carry the session index and the event index within
// the session.
type ShardedBad struct {
	Session int
	Event   int // index within the session
	Why     string
}

// ShardedNeed locates a need at (session, event).
type ShardedNeed struct {
	Session, Event int
	Name           string
	Arg            any
}

type ShardedResult struct {
	Needs           []ShardedNeed
	Stats           // summed
	Events, Checked int
	Undef           int
	Bad             []ShardedBad
	Cmds            []string
	Shards          int
}

func ValidateSharded(baseDir, family string, sessions []Session, extraHeader map[string]any, shards int, timeout time.Duration) (*ShardedResult, error) {
	if shards < 1 {
		shards = 1
	}
	if shards > len(sessions) {
		shards = len(sessions)
	}
	if shards == 0 {
		return &ShardedResult{}, nil
	}
	type loc struct{ sess, ev int }
	lines := make([][][]byte, shards)
	locs := make([][]loc, shards)
	for i, s := range sessions {
		k := i % shards
		for j, l := range s {
			lines[k] = append(lines[k], l)
			locs[k] = append(locs[k], loc{i, j})
		}
	}
	out := &ShardedResult{Shards: shards}
	var mu sync.Mutex
	var wg sync.WaitGroup
	var firstErr error
	for k := 0; k < shards; k++ {
		wg.Add(1)
		go func(k int) {
			defer wg.Done()
			dir := filepath.Join(baseDir, fmt.Sprintf("shard%02d", k))
			r, err := ValidateTrace(dir, family, lines[k], extraHeader, timeout)
			mu.Lock()
			defer mu.Unlock()
			if err != nil {
				if firstErr == nil {
					firstErr = err
				}
				return
			}
			out.Generated += r.Generated
			out.Distinct += r.Distinct
			if r.WallS > out.WallS {
				out.WallS = r.WallS
			}
			out.Events += r.Events
			out.Checked += r.Checked
			out.Undef += r.Undef
			out.Cmds = append(out.Cmds, r.Cmd)
			for _, nd := range r.Needs {
				idx := nd.Line - 2
				if idx >= 0 && idx < len(locs[k]) {
					out.Needs = append(out.Needs, ShardedNeed{locs[k][idx].sess, locs[k][idx].ev, nd.Name, nd.Arg})
				}
			}
			for _, b := range r.Bad {
				// trace line numbering: header is line 1
				idx := b.Line - 2
				if idx < 0 || idx >= len(locs[k]) {
					if firstErr == nil {
						firstErr = fmt.Errorf("bad line index %d out of range", b.Line)
					}
					continue
				}
				out.Bad = append(out.Bad, ShardedBad{locs[k][idx].sess, locs[k][idx].ev, b.Why})
			}
		}(k)
	}
	wg.Wait()
	sort.Slice(out.Bad, func(i, j int) bool {
		if out.Bad[i].Session != out.Bad[j].Session {
			return out.Bad[i].Session < out.Bad[j].Session
		}
		return out.Bad[i].Event < out.Bad[j].Event
	})
	return out, firstErr
}

// ModelResult is the outcome of a bounded-model run.
type ModelResult struct {
	Stats
	Vectors      [][]byte // the JSON payload of every "@@V " line
	InvariantBad bool
	Output       string
}

var reV = regexp.MustCompile(`^"@@V (.*)"$`)

// RunModel runs `module` (with module.cfg, or cfg if given) in dir and
// collects the @@V lines TLC prints. extraArgs e.g. "-simulate", "num=100".
func RunModel(dir, module, cfg string, workers int, xmx string, timeout time.Duration, onVector func([]byte), extraArgs ...string) (*ModelResult, error) {
	return runModel(dir, module, cfg, workers, xmx, timeout, onVector, false, extraArgs...)
}

func runModel(dir, module, cfg string, workers int, xmx string, timeout time.Duration, onVector func([]byte), keepCfg bool, extraArgs ...string) (*ModelResult, error) {
	if err := os.MkdirAll(filepath.Join(dir, "jtmp"), 0o755); err != nil {
		return nil, err
	}
	var saved []byte
	if keepCfg {
		saved, _ = os.ReadFile(filepath.Join(dir, cfg))
	}
	if err := copySpec(dir); err != nil {
		return nil, err
	}
	if keepCfg {
		os.WriteFile(filepath.Join(dir, cfg), saved, 0o644)
	}
	if cfg == "" {
		cfg = module + ".cfg"
	}
	rest := append([]string{"-config", cfg}, extraArgs...)
	rest = append(rest, module+".tla")
	args := javaArgs(dir, xmx, workers, rest...)
	ctx, cancel := context.WithTimeout(context.Background(), timeout)
	defer cancel()
	cmd := exec.CommandContext(ctx, "java", args...)
	cmd.Dir = dir
	stdout, err := cmd.StdoutPipe()
	if err != nil {
		return nil, err
	}
	cmd.Stderr = cmd.Stdout
	t0 := time.Now()
	if err := cmd.Start(); err != nil {
		return nil, err
	}
	res := &ModelResult{}
	res.Cmd = "java " + strings.Join(args, " ")
	var other strings.Builder
	rd := bufio.NewReaderSize(stdout, 1<<20)
	for {
		line, err := rd.ReadBytes('\n')
		if len(line) > 0 {
			line = bytes.TrimRight(line, "\r\n")
			if m := reV.FindSubmatch(line); m != nil {
				js := Unquote(m[1])
				if onVector != nil {
					onVector(js)
				} else {
					res.Vectors = append(res.Vectors, js)
				}
			} else if other.Len() < 1<<20 {
				other.Write(line)
				other.WriteByte('\n')
			}
		}
		if err != nil {
			if err != io.EOF {
				return nil, err
			}
			break
		}
	}
	werr := cmd.Wait()
	res.WallS = time.Since(t0).Seconds()
	res.Output = other.String()
	parseStats(res.Output, &res.Stats)
	if ctx.Err() != nil {
		return res, fmt.Errorf("TLC model %s timed out after %v", module, timeout)
	}
	if strings.Contains(res.Output, "Invariant") && strings.Contains(res.Output, "is violated") ||
		strings.Contains(res.Output, "Action property") && strings.Contains(res.Output, "is violated") {
		res.InvariantBad = true
		return res, nil
	}
	if werr != nil || !strings.Contains(res.Output, "Model checking completed") && !strings.Contains(res.Output, "Finished in") {
		return res, fmt.Errorf("TLC model %s failed (%v): %s", module, werr, tail(res.Output, 40))
	}
	if strings.Contains(res.Output, "Error:") {
		return res, fmt.Errorf("TLC model %s reported an error: %s", module, tail(res.Output, 40))
	}
	return res, nil
}

// RunModelCfg is RunModel with the configuration text given inline.
func RunModelCfg(dir, module, cfgText string, workers int, xmx string, timeout time.Duration, onVector func([]byte), extraArgs ...string) (*ModelResult, error) {
	if err := os.MkdirAll(dir, 0o755); err != nil {
		return nil, err
	}
	name := module + "_run.cfg"
	if err := os.WriteFile(filepath.Join(dir, name), []byte(cfgText), 0o644); err != nil {
		return nil, err
	}
	return runModel(dir, module, name, workers, xmx, timeout, onVector, true, extraArgs...)
}

// Unquote undoes the TLA+ string quoting TLC applies when printing a string.
func Unquote(b []byte) []byte {
	out := make([]byte, 0, len(b))
	for i := 0; i < len(b); i++ {
		if b[i] == '\\' && i+1 < len(b) {
			switch b[i+1] {
			case '"':
				out = append(out, '"')
				i++
				continue
			case '\\':
				out = append(out, '\\')
				i++
				continue
			case 'n':
				out = append(out, '\n')
				i++
				continue
			case 't':
				out = append(out, '\t')
				i++
				continue
			}
		}
		out = append(out, b[i])
	}
	return out
}
