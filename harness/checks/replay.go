package checks

import (
	"encoding/json"
	"fmt"
	"os"
	"path/filepath"
	"strings"

	"bklverif/fsx"
	"bklverif/gen"
	"bklverif/real"
	"bklverif/tv"
)

// Replay re-executes a recorded violation (out/replays/<id>-NNN.json) against
// the code built from /repo's current working tree: model vectors are replayed
// as they were; recorded traces are re-driven through the real library where
// the events carry their inputs (MergeDocument / Documents / Output / Eval) and
// validated by TLC again. Exit 0: the case now agrees; 1: it still fails.
func Replay(id, path string) int {
	b, err := os.ReadFile(path)
	if err != nil {
		Fatal("replay: %v", err)
	}
	var rf struct {
		Property string `json:"property"`
		Why      string `json:"why"`
		Case     struct {
			Kind   string          `json:"kind"`
			Vector json.RawMessage `json:"vector"`
			Events []map[string]any
			Event  int
		} `json:"case"`
	}
	if err := json.Unmarshal(b, &rf); err != nil {
		Fatal("replay: %v", err)
	}
	fmt.Printf("replaying %s (%s): %s\n", path, rf.Case.Kind, rf.Why)
	r := NewRun(id+"-replay", "quick")
	defer os.RemoveAll(r.Dir)
	report := func(why string, obs any) int {
		if why == "" {
			fmt.Println("the case agrees with the specification now")
			return 0
		}
		ob, _ := json.Marshal(obs)
		fmt.Printf("still failing: %s\n  observed: %.1500s\n", why, ob)
		fmt.Printf("VIOLATION property=%s replay=%s\n", id, path)
		return 1
	}
	switch rf.Case.Kind {
	case "vector":
		var v mergeVector
		json.Unmarshal(rf.Case.Vector, &v)
		agree, obs := replayMerge(&v)
		if agree {
			return report("", nil)
		}
		return report("the real library disagrees with the specification on this chain", obs)
	case "history":
		var v histVector
		json.Unmarshal(rf.Case.Vector, &v)
		why, obs := replayHistory(&v)
		return report(why, obs)
	case "evalvector":
		var v evalVector
		json.Unmarshal(rf.Case.Vector, &v)
		var agree bool
		var obs map[string]any
		if id == "C08" {
			agree, obs = replayEvalCLI(r)(&v)
		} else {
			agree, obs = replayEval(&v)
		}
		if agree {
			return report("", nil)
		}
		return report("the real code disagrees with the specification on this case", obs)
	case "layout":
		var l layout
		if len(rf.Case.Vector) > 0 {
			json.Unmarshal(rf.Case.Vector, &l)
			return report(replayLayout(r, &l, l.Family == "C18"), nil)
		}
	case "wrapvector":
		var v wrapVector
		json.Unmarshal(rf.Case.Vector, &v)
		return report(replayWrap(r, &v), nil)
	case "longline":
		before := len(r.Viol)
		longLineCheck(r)
		if len(r.Viol) > before {
			return report("a long-line text is still read differently", r.Viol[len(r.Viol)-1])
		}
		return report("", nil)
	case "stream":
		var c struct {
			Ext    string       `json:"ext"`
			CRLF   bool         `json:"crlf"`
			Text   string       `json:"text"`
			Vector streamVector `json:"vector"`
		}
		raw, _ := json.Marshal(map[string]any{})
		_ = raw
		var whole struct {
			Case json.RawMessage `json:"case"`
		}
		json.Unmarshal(b, &whole)
		json.Unmarshal(whole.Case, &c)
		want := &c.Vector.Yaml
		if c.Ext == "toml" {
			want = &c.Vector.Toml
		}
		ok, docs, msg := readStream(r, c.Ext, c.Text)
		if ok != want.OK {
			return report(fmt.Sprintf("specification ok=%v, Parser ok=%v (%s)", want.OK, ok, msg), docs)
		}
		if ok && strings.Join(docs, " | ") != strings.Join(wantDocs(want, c.Ext), " | ") {
			return report("the Parser holds other documents than the specification reads", docs)
		}
		return report("", nil)
	case "trace":
		sess, ok := redrive(r, rf.Case.Events)
		if !ok {
			fmt.Println("this trace cannot be re-driven automatically (process-level events); the recorded events are in the file")
			return 2
		}
		res, _ := r.ValidateWithCodecs("replay", []Sess{sess})
		if len(res.Bad) == 0 {
			return report("", nil)
		}
		return report(fmt.Sprintf("event %d: %s", res.Bad[0].Event, res.Bad[0].Why), Lines(sess)[res.Bad[0].Event])
	}
	fmt.Println("unknown replay kind; the recorded case is in the file")
	return 2
}

// redrive performs the calls of a recorded library trace again on the real
// code and records fresh events.
func redrive(r *Run, events []map[string]any) (Sess, bool) {
	var lines [][]byte
	var s *real.Sess
	for _, e := range events {
		switch e["ev"] {
		case "Reset":
			s = real.NewSess()
			lines = append(lines, J(e))
		case "MergeDocument":
			if s == nil {
				s = real.NewSess()
			}
			p := e["patch"].(map[string]any)
			parents := []string{}
			for _, x := range p["parents"].([]any) {
				parents = append(parents, x.(string))
			}
			o := s.MergeDocument(p["id"].(string), parents, p["data"].([]any))
			ne := map[string]any{"ev": "MergeDocument", "patch": p, "ok": o.OK, "err": o.Class, "docs": s.Docs()}
			lines = append(lines, J(ne))
		case "Documents":
			lines = append(lines, J(map[string]any{"ev": "Documents", "docs": s.Docs()}))
		case "Output":
			env := map[string]string{}
			if m, ok := e["env"].(map[string]any); ok {
				for k, v := range m {
					env[k] = fmt.Sprint(v)
				}
			}
			var o real.Outcome
			var outs []any
			real.WithEnv(env, func() { o, outs = s.OutputDocuments() })
			if outs == nil {
				outs = []any{}
			}
			ne := map[string]any{"ev": "Output", "format": "docs", "env": env, "ok": o.OK, "outs": outs}
			for _, k := range []string{"expect", "expecterr", "laws"} {
				if v, ok := e[k]; ok {
					ne[k] = v
				}
			}
			lines = append(lines, J(ne))
		case "Eval":
			env := map[string]string{}
			if m, ok := e["env"].(map[string]any); ok {
				for k, v := range m {
					env[k] = fmt.Sprint(v)
				}
			}
			docs := []any{}
			for _, d := range e["docs"].([]any) {
				docs = append(docs, tv.ToGo(d.(map[string]any)["data"]))
			}
			var expect any
			if v, ok := e["expect"]; ok {
				expect = v
			}
			if _, ok := e["expecterr"]; ok {
				expect = "error"
			}
			var laws []string
			if ls, ok := e["laws"].([]any); ok {
				for _, x := range ls {
					laws = append(laws, x.(string))
				}
			}
			lines = append(lines, evalEvent(docs, env, expect, laws, ""))
		case "Wrap":
			fs := entriesOf(e["fs"])
			args := stringsOf(e["args"])
			kube := e["via"] == "kubectl-bkl"
			obs, err := runWrapper(r, fs, args, kube)
			if err != nil {
				return Sess{}, false
			}
			lines = append(lines, wrapEvent(fs, args, obs, fmt.Sprint(e["via"])))
		case "Run":
			l := &layout{Fs: entriesOf(e["fs"]), Skip: e["skip"] == true, Root: fmt.Sprint(e["root"])}
			for _, in := range stringsOf(e["inputs"]) {
				rel, err := filepath.Rel("/w", in)
				if err != nil {
					return Sess{}, false
				}
				l.Inputs = append(l.Inputs, rel)
			}
			if e["via"] == "library" {
				ev, ok := libraryRun(r, l, stringsOf(e["roots"]))
				if !ok {
					return Sess{}, false
				}
				lines = append(lines, ev)
			} else {
				_, traced := e["reads"]
				sess, ok := runSession(r, l, traced || e["ok"] != true)
				if !ok {
					return Sess{}, false
				}
				lines = append(lines, sess.Lines...)
			}
		case "RBegin", "RStep", "REnd":
			// regenerated by the Run event above
		default:
			return Sess{}, false
		}
	}
	_ = gen.Env
	return Sess{Lines: lines}, len(lines) > 0
}

func stringsOf(v any) []string {
	out := []string{}
	if l, ok := v.([]any); ok {
		for _, x := range l {
			out = append(out, fmt.Sprint(x))
		}
	}
	return out
}

func entriesOf(v any) map[string]fsx.Entry {
	out := map[string]fsx.Entry{}
	m, _ := v.(map[string]any)
	for p, x := range m {
		em, _ := x.(map[string]any)
		e := fsx.Entry{Kind: fmt.Sprint(em["kind"])}
		if t, ok := em["target"].(string); ok {
			e.Target = t
		}
		if raw, ok := em["raw"].(string); ok {
			e.Raw = []byte(raw)
		}
		if ds, ok := em["docs"].([]any); ok {
			for _, d := range ds {
				e.Docs = append(e.Docs, d.([]any))
			}
		}
		out[p] = e
	}
	return out
}
