package checks

import (
	"fmt"
	"sync"

	"bklverif/fsx"
	"bklverif/gen"
	"bklverif/indep"
	"bklverif/tv"
)

// numericMap: map-rooted, null-free trees rich in numbers that must compare
// equal across formats.
func numericMap(g *gen.G, d int) map[string]any {
	num := func() any {
		switch g.N(6) {
		case 0:
			return g.Float()
		case 1:
			return g.Pick([]string{"x", "y", "1", "1.5", "true", "é"})
		case 2:
			return g.P(0.5)
		default:
			return g.Int()
		}
	}
	m := map[string]any{}
	for i := 2 + g.N(3); i > 0; i-- {
		k := g.Pick([]string{"a", "b", "c", "n", "f", "name"})
		switch {
		case d > 0 && g.P(0.25):
			m[k] = numericMap(g, d-1)
		case d > 0 && g.P(0.3):
			l := []any{}
			for j := 1 + g.N(3); j > 0; j-- {
				l = append(l, map[string]any{"id": num(), "v": g.Pick([]string{"p", "q"})})
			}
			m[k] = l
		default:
			m[k] = num()
		}
	}
	return m
}

func stripNullsDeep(v any) any {
	switch x := v.(type) {
	case map[string]any:
		m := map[string]any{}
		for k, e := range x {
			if e != nil {
				m[k] = stripNullsDeep(e)
			}
		}
		return m
	case []any:
		l := []any{}
		for _, e := range x {
			if e != nil {
				l = append(l, stripNullsDeep(e))
			}
		}
		return l
	}
	return v
}

func C04(r *Run) {
	if !r.Thorough() {
		FilesShardFraction = 4 // a quarter of the (chain, assignment) layouts per quick run
	}
	st := modelFiles(r, "C04")
	FilesShardFraction = 1
	sst := modelStreams(r, r.Pick(4, 5))
	r.Logf("stream model: %d line sequences read as YAML and TOML, LF and CRLF", sst.Replayed)
	r.Logf("model: %d (chain, format assignment) layouts replayed", st.Replayed)
	g := gen.New(r.Seed*715225739 + 4)
	g.NullP, g.ReqP = 0, 0
	g.Strs = []string{"x", "y", "1", "1.5", "true", "a b", "é", ""}
	n := r.Pick(120, 3000)
	var sessions []Sess
	var mu sync.Mutex
	var wg sync.WaitGroup
	sem := make(chan struct{}, Cores())
	styleSkipped, styleUsed := 0, 0
	exts := []string{"json", "yaml", "toml"}
	for i := 0; i < n; i++ {
		// a layer set: 1-3 layers, sometimes two documents in the base
		base := numericMap(g, 2)
		if g.P(0.3) {
			base["$repeat"] = g.N(4)
			base["i"] = "$repeat"
		}
		if g.P(0.3) { // material for anchors / merge keys
			base["defaults"] = map[string]any{"p": g.Int(), "q": g.Float()}
			base["svc"] = map[string]any{"p": base["defaults"].(map[string]any)["p"], "q": base["defaults"].(map[string]any)["q"], "r": "own"}
			base["again"] = gen.Clone(base["defaults"])
		}
		if g.P(0.3) { // keys that look like numbers / booleans (YAML may write them plain: style "plainkeys")
			vers := map[string]any{}
			for j := 1 + g.N(3); j > 0; j-- {
				vers[g.Pick(fsx.PlainKeyStrings)] = []any{"stable", "next", 1, 2.5, true}[g.N(5)]
			}
			base["vers"] = vers
		}
		if g.P(0.3) { // whole-valued doubles: 3.0 is not 3 for any comparison, whatever the format
			base["whole"] = []float64{3, -2, 100000, 0, 7}[g.N(5)] // below 1e6: the canonical payload is then a digit string
			base["wl"] = []any{map[string]any{"id": 2.0, "v": "a"}, map[string]any{"id": 2, "v": "b"}}
		}
		layers := [][]any{{base}}
		if g.P(0.2) {
			layers[0] = append(layers[0], numericMap(g, 1))
		}
		if g.P(0.15) {
			// an empty document in a multi-document layer (a blank part of a TOML stream)
			if g.P(0.5) {
				layers[0] = append([]any{map[string]any{}}, layers[0]...)
			} else {
				layers[0] = append(layers[0], map[string]any{})
			}
		}
		cur := any(base)
		for j := g.N(3); j > 0; j-- {
			up, ok := stripNullsDeep(g.Patch(cur, 2)).(map[string]any)
			if !ok {
				up = map[string]any{"extra": g.Int()}
			}
			delete(up, "$match")
			if g.P(0.25) {
				up["$repeat"] = g.N(4)
			}
			if len(layers[0]) > 1 {
				up["$match"] = map[string]any{}
			}
			layers = append(layers, []any{up})
			cur = overlay(cur, up)
		}
		nl := len(layers)
		total := 1
		for k := 0; k < nl; k++ {
			total *= 3
		}
		for code := 0; code < total; code++ {
			asg := make([]string, nl)
			c := code
			for k := 0; k < nl; k++ {
				asg[k] = exts[c%3]
				c /= 3
			}
			style := ""
			if g.P(0.3) {
				style = g.Pick([]string{"flow", "anchors", "merge", "dotted", "inline", "docstart", "plus", "crlf", "sepcomment"})
			}
			if _, has := base["vers"]; has && g.P(0.6) {
				style = "plainkeys"
			}
			l := &layout{Fs: map[string]fsx.Entry{}, Root: "/"}
			name := "a"
			okLayout := true
			for k := 0; k < nl; k++ {
				if k > 0 {
					name += "." + string(rune('a'+k))
				}
				docs := toTagged(layers[k])
				e := fsx.Entry{Kind: "file", Docs: docs}
				if style != "" {
					b, err := fsx.EncodeStyled(asg[k], docs, style)
					if err == nil {
						// the variant must mean the intended tree for an independent reader
						dec := indep.Decode
						if style == "plainkeys" {
							dec = indep.DecodeKeyText // a key is the text of the key as written
						}
						got, ok, _, derr := dec(asg[k], string(b))
						if derr != nil {
							Fatal("independent decoder: %v", derr)
						}
						want := make([]any, len(docs))
						for q := range docs {
							want[q] = docs[q]
						}
						if ok && docsEqual(got, want) {
							e.Raw = b
							mu.Lock()
							styleUsed++
							mu.Unlock()
						} else {
							mu.Lock()
							styleSkipped++
							mu.Unlock()
						}
					}
				}
				if _, err := fsx.Encode(asg[k], docs); err != nil && e.Raw == nil {
					okLayout = false
				}
				l.Fs["/w/"+name+"."+asg[k]] = e
				if k == nl-1 {
					l.Inputs = []string{name + "." + asg[k]}
				}
			}
			if !okLayout {
				continue
			}
			wg.Add(1)
			sem <- struct{}{}
			go func(l *layout) {
				defer wg.Done()
				defer func() { <-sem }()
				sess, ok := runSession(r, l, false)
				if !ok {
					return
				}
				mu.Lock()
				sessions = append(sessions, sess)
				mu.Unlock()
			}(l)
		}
	}
	// the hand-written format corpus, judged through the independent decoders
	corpus, corpusSkipped := corpusLayouts()
	for _, l := range corpus {
		wg.Add(1)
		sem <- struct{}{}
		go func(l *layout) {
			defer wg.Done()
			defer func() { <-sem }()
			sess, ok := runSession(r, l, false)
			if !ok {
				return
			}
			mu.Lock()
			sessions = append(sessions, sess)
			mu.Unlock()
		}(l)
	}
	wg.Wait()
	r.Cov["long_line_texts_compared_outside_tlc"] = longLineCheck(r)
	r.Cov["format_corpus_texts"] = len(corpus)
	r.Cov["format_corpus_skipped_by_independent_decoder"] = corpusSkipped
	r.Cov["style_variants_used"] = styleUsed
	r.Cov["style_variants_skipped_by_self_check"] = styleSkipped
	_ = tv.Equal
	_ = fmt.Sprint
	finishEvalFamily(r, "C04", st, sessions, []string{"FormatFree (every assignment equals the all-JSON writing)"},
		"model: a numeric base layer x 20 upper layers ($match / $delete patterns with 32-bit-overflowing, 64-bit and float ids, same-value overrides of ints, floats, extremes and denormals, $repeat, document-level $match on numbers) x 3 third layers under ALL 3^n assignments of json/yaml/toml, each run through the real bkl; driver: random numeric layer sets (1-3 layers, 1-2 documents) under all 3^n assignments, a third of them in a style variant (YAML flow, anchors/aliases, merge keys, number-like keys written plain, document markers with comments; TOML dotted keys, inline tables, +++ separators; CRLF line endings in every format) that the independent decoder confirms to mean the same tree; a hand-written corpus of YAML / TOML / JSON texts (merge keys and lists of them, anchors, core-schema scalars, block scalars, streams with every marker form, tables, arrays of tables, dotted keys) whose meaning is the independent decoder's reading; TLC validates every run against the format-free RunLayers")
}
