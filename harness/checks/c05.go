package checks

import (
	"bytes"
	"fmt"
	"os"
	"path/filepath"
	"strconv"
	"strings"
	"sync"
	"sync/atomic"

	"github.com/gopatchy/bkl"

	"bklverif/fsx"
	"bklverif/gen"
	"bklverif/indep"
	"bklverif/tv"
)

var lookAlikes = []string{"123", "1.5", "1e3", "0x1f", "0o17", "true", "false", "null", "~", "yes", "no", "on", "off", "y", "n",
	"2001-01-01", "2001-01-01T10:00:00Z", "12:30:45", "#c", "a #b", "- x", "---", "...", "+++", "[a]", "{a}", "a: b", "a:", ":a",
	"&a", "*a", "!t", "|", ">", "'q'", "\"dq\"", "%d", "@h", "`b`", " lead", "trail ", "", "é", "日本", "a,b", "=", "1_000", ".5", "5.",
	"+1", "-", "?", "? a", "null ", "NaN", ".inf", "Infinity", "0123", "1:2", "\\", "a\\nb", "multi word", "True", "NULL", "0.1", "-0",
	"1e+300", "9223372036854775808", "[", "]", "{", "}", ",", "a\"b", "it's", "k=v", "[[t]]", "a.b", "x # y", "éè", "Ω", "ß",
	// values rather than shapes: characters some encoders escape, timestamps with offsets and
	// fractions, keys that sort differently as text and as numbers (control characters are
	// outside the character order of the trace specification and stay out)
	"<", "&", "a<b>c", "</script>", "2022-02-05T10:30:00+02:00", "2001-12-14T21:59:43.10Z",
	"2001-12-14 21:59:43.10 -5", "h10", "h2", "1.10", "1.0", "+1", "007", "%s"}

func lookAlike(g *gen.G) string {
	if g.P(0.85) {
		return g.Pick(lookAlikes)
	}
	return "<<"
}

func roundTripValue(g *gen.G, d int, tomlSafe bool) any {
	if d <= 0 || g.P(0.35) {
		switch g.N(8) {
		case 0:
			return g.Int()
		case 1:
			if g.P(0.25) {
				// doubles beyond the 64-bit integers: JSON writes those below 1e21 as plain digits
				return []float64{1e19, -2.5e20, 9223372036854775808, 18446744073709551616, 1e21, -1e300}[g.N(6)]
			}
			return g.Float()
		case 2:
			return g.P(0.5)
		default:
			return lookAlike(g)
		}
	}
	if g.P(0.55) {
		m := map[string]any{}
		nk := g.N(4)
		if d >= 2 && g.P(0.04) {
			nk = 12 + g.N(30) // the large regime: many keys
		}
		for i := nk; i > 0; i-- {
			k := lookAlike(g)
			if nk > 4 {
				k = fmt.Sprintf("%s-%d", k, i)
			}
			if g.P(0.4) {
				k = g.Pick([]string{"a", "b", "name", "k1"})
			}
			m[k] = roundTripValue(g, d-1, tomlSafe)
		}
		return m
	}
	l := []any{}
	nl := g.N(4)
	if d >= 2 && g.P(0.04) {
		nl = 15 + g.N(50) // the large regime: long lists
	}
	for i := nl; i > 0; i-- {
		l = append(l, roundTripValue(g, d-1, tomlSafe))
	}
	return l
}

// twin returns a copy of v in which every scalar is replaced by its look-alike of another
// type: a number or boolean by the string that prints the same, such a string by the value.
func twin(v any) any {
	switch x := v.(type) {
	case map[string]any:
		m := map[string]any{}
		for k, e := range x {
			m[k] = twin(e)
		}
		return m
	case []any:
		l := make([]any, len(x))
		for i, e := range x {
			l[i] = twin(e)
		}
		return l
	case string:
		if n, err := strconv.Atoi(x); err == nil && strconv.Itoa(n) == x {
			return n
		}
		if x == "true" || x == "false" {
			return x == "true"
		}
		return x
	case nil:
		return nil
	default:
		return fmt.Sprint(x)
	}
}

func hasString(v any, s string) bool {
	switch x := v.(type) {
	case map[string]any:
		for k, e := range x {
			if k == s || hasString(e, s) {
				return true
			}
		}
	case []any:
		for _, e := range x {
			if hasString(e, s) {
				return true
			}
		}
	case string:
		return x == s
	}
	return false
}

func hasContainer(docs []any) bool {
	for _, d := range docs {
		switch x := d.(type) {
		case map[string]any:
			if len(x) > 0 {
				return true
			}
		case []any:
			if len(x) > 0 {
				return true
			}
		}
	}
	return false
}

// observeBytes: what bkl itself and the independent parsers read back.
func observeBytes(dir string, class string, name string, b []byte) map[string]any {
	// bkl reads the text back under the very format name it was written with (the
	// extension selects the reader: json-pretty, jsonl and yml have table entries of their own)
	ext := map[string]string{"json": "json", "json-pretty": "json", "yaml": "yaml", "toml": "toml"}[class]
	switch name {
	case "json", "jsonl", "json-pretty", "yaml", "yml", "toml":
		if classOf(name) == class {
			ext = name
		}
	}
	obs := map[string]any{"bklok": false, "bkl": []any{}, "multiline": false}
	ind := map[string]any{}
	for _, f := range []string{"json", "yaml", "toml"} {
		docs, ok, _, err := indep.Decode(f, string(b))
		if err != nil {
			Fatal("independent decoder: %v", err)
		}
		if docs == nil {
			docs = []any{}
		}
		ind[f] = map[string]any{"ok": ok, "docs": docs}
	}
	obs["indep"] = ind
	// indented JSON: some line starts with two spaces
	obs["multiline"] = bytes.Contains(b, []byte("\n  "))
	if ext != "" {
		p := filepath.Join(dir, fmt.Sprintf("back%d.%s", atomic.AddInt64(&scratchSeq, 1), ext))
		os.WriteFile(p, b, 0o644)
		defer os.Remove(p)
		func() {
			defer func() { recover() }()
			ps, _ := bkl.New()
			if err := ps.MergeFile(p); err != nil {
				return
			}
			ds := []any{}
			for _, d := range ps.Documents() {
				ds = append(ds, tv.FromGo(d.Data))
			}
			obs["bklok"] = true
			obs["bkl"] = ds
		}()
	}
	return obs
}

func classOf(f string) string {
	switch f {
	case "json", "jsonl":
		return "json"
	case "json-pretty":
		return "json-pretty"
	case "yaml", "yml":
		return "yaml"
	case "toml":
		return "toml"
	}
	return ""
}

func emitEvent(docs []any, via, format, fflag, opath string, inputs []string, ok bool, b []byte, dir string, class string, name string, kf string) []byte {
	edocs := make([]any, len(docs))
	for i, d := range docs {
		edocs[i] = map[string]any{"id": fmt.Sprintf("d%d", i), "data": tv.FromGo(d)}
	}
	ev := map[string]any{"ev": "Emit", "via": via, "format": format, "fflag": fflag, "opath": opath, "inputs": inputs,
		"docs": edocs, "ok": ok, "hascontainer": hasContainer(docs), "bklok": false, "bkl": []any{}, "multiline": false,
		"indep": map[string]any{"json": map[string]any{"ok": false, "docs": []any{}}, "yaml": map[string]any{"ok": false, "docs": []any{}}, "toml": map[string]any{"ok": false, "docs": []any{}}}}
	if ok {
		for k, v := range observeBytes(dir, class, name, b) {
			ev[k] = v
		}
		ev["bytes"] = trunc(string(b), 400)
	}
	if kf != "" {
		ev["kf"] = kf
	}
	return J(ev)
}

func C05(r *Run) {
	g := gen.New(r.Seed*633910099 + 5)
	g.NullP, g.ReqP = 0, 0
	n := r.Pick(500, 12000)
	tg := gen.New(r.Seed*7 + 505)
	var sessions []Sess
	var mu sync.Mutex
	var wg sync.WaitGroup
	sem := make(chan struct{}, Cores())
	add := func(ev []byte) {
		mu.Lock()
		sessions = append(sessions, Sess{Lines: [][]byte{ev}})
		mu.Unlock()
	}
	formats := []string{"json", "jsonl", "json-pretty", "yaml", "yml", "toml"}
	// the format selection matrix, on a fixed stream
	fixed := []any{map[string]any{"a": 1, "s": "true", "l": []any{"x", 2.5}}, map[string]any{"b": map[string]any{}}}
	for _, fflag := range []string{"", "json", "json-pretty", "toml", "yaml", "yml", "jsonl", "xml"} {
		for _, oext := range []string{"", "json", "jsonl", "json-pretty", "yaml", "yml", "toml", "txt"} {
			for _, iext := range formats {
				fflag, oext, iext := fflag, oext, iext
				wg.Add(1)
				sem <- struct{}{}
				go func() {
					defer wg.Done()
					defer func() { <-sem }()
					add(cliEmit(r, gen.New(1), fixed, fflag, oext, iext, ""))
				}()
			}
		}
	}
	for i := 0; i < n; i++ {
		nd := 1 + g.N(4)
		docs := make([]any, nd)
		mapRooted := g.P(0.6)
		for j := range docs {
			if mapRooted || g.P(0.5) {
				m, ok := roundTripValue(g, 3, true).(map[string]any)
				if !ok {
					m = map[string]any{"v": roundTripValue(g, 2, true)}
				}
				docs[j] = m
			} else {
				docs[j] = roundTripValue(g, 2, false)
			}
		}
		// neighbours that PRINT alike but are different documents (8080 / "8080", true / "true"),
		// and exact copies: every document of a stream is written for itself
		for j := 1; j < nd; j++ {
			switch tg.N(8) {
			case 0:
				docs[j] = twin(docs[j-1])
			case 1:
				docs[j] = gen.Clone(docs[j-1])
			}
		}
		allMaps := true
		for _, d := range docs {
			if _, ok := d.(map[string]any); !ok {
				allMaps = false
			}
		}
		seed := g.R.Int63()
		wg.Add(1)
		sem <- struct{}{}
		go func() {
			defer wg.Done()
			defer func() { <-sem }()
			lg := gen.New(seed)
			for _, f := range formats {
				if f == "toml" && !allMaps {
					continue
				}
				kf := ""
				if classOf(f) == "yaml" {
					for _, d := range docs {
						if hasString(d, "<<") {
							kf = "c05-yaml-merge-key"
						}
					}
				}
				// the library
				ps, _ := bkl.New()
				okm := true
				for j, d := range docs {
					if ps.MergeDocument(bkl.NewDocumentWithData(fmt.Sprintf("d%d", j), gen.Clone(d))) != nil {
						okm = false
					}
				}
				if !okm {
					continue
				}
				var b []byte
				var err error
				dir := filepath.Join(r.Dir, fmt.Sprintf("emit%d", atomic.AddInt64(&scratchSeq, 1)))
				os.MkdirAll(dir, 0o755)
				switch lg.N(3) {
				case 0:
					b, err = ps.Output(f)
				case 1:
					var buf bytes.Buffer
					err = ps.OutputToWriter(&buf, f)
					b = buf.Bytes()
				default:
					p := filepath.Join(dir, "o."+f)
					err = ps.OutputToFile(p, "")
					b, _ = os.ReadFile(p)
				}
				add(emitEvent(docs, "library", f, "", "", nil, err == nil, b, dir, classOf(f), f, kf))
				os.RemoveAll(dir)
			}
			// the CLI, one random selection route
			fflag, oext, iext := "", "", lg.Pick(formats)
			switch lg.N(3) {
			case 0:
				fflag = lg.Pick([]string{"json", "json-pretty", "toml", "yaml"})
			case 1:
				oext = lg.Pick(formats)
			}
			eff := iext
			if oext != "" {
				eff = oext
			}
			if fflag != "" {
				eff = fflag
			}
			if classOf(eff) == "toml" && !allMaps {
				return
			}
			kf := ""
			if classOf(eff) == "yaml" {
				for _, d := range docs {
					if hasString(d, "<<") {
						kf = "c05-yaml-merge-key"
					}
				}
			}
			add(cliEmit(r, lg, docs, fflag, oext, iext, kf))
		}()
	}
	wg.Wait()
	r.Logf("%d output events recorded", len(sessions))
	st := modelStats{}
	res := r.Validate("C05", sessions, nil)
	known := KnownFor(r.ID)
	for _, b := range res.Bad {
		evs := Lines(sessions[b.Session])
		if m, ok := evs[b.Event].(map[string]any); ok {
			if kf, _ := m["kf"].(string); kf != "" {
				if _, listed := known[kf]; listed {
					r.Known[kf]++
					continue
				}
			}
		}
		r.Violate(fmt.Sprintf("output round trip: %s", b.Why), map[string]any{"kind": "trace", "events": evs, "event": b.Event})
	}
	_ = st
	r.Sample(map[string]any{"event": Lines(sessions[len(sessions)/2])})
	r.Cov["states"] = res.Generated
	r.Cov["transitions"] = res.Generated
	r.Cov["traces_validated_against_impl"] = len(sessions)
	r.Cov["trace_events"] = res.Events
	r.Cov["trace_events_compared"] = res.Checked
	r.Cov["format_selection_combinations"] = 8 * 8 * 6
	r.Cov["evaluations"] = len(sessions)
	r.Cov["distinct_nontrivial"] = len(sessions)
	r.Cov["rule"] = "every combination of -f (8 values, 3 invalid) x -o extension (8, 1 unknown) x input (virtual) extension (6) on a fixed stream through the real bkl; random streams of 1-4 documents over 90 look-alike strings (numbers, booleans, null, dates, comment / separator / indicator characters, blanks, unicode) as values and keys, 64-bit integers, doubles, empty and nested containers, written through Output / OutputToWriter / OutputToFile in all six formats and through one random CLI route; TLC checks the format chosen (ChooseFormat), that bkl reads back exactly the evaluated stream, and that the independent parser of that format does"
	r.Cov["checker_cmd"] = first(res.Cmds)
}

// cliEmit writes the stream as an input file, runs the real bkl with the
// given selection route and observes what was written.
func cliEmit(r *Run, g *gen.G, docs []any, fflag, oext, iext, kf string) []byte {
	dir := filepath.Join(r.Dir, fmt.Sprintf("cli%d", atomic.AddInt64(&scratchSeq, 1)))
	os.MkdirAll(dir, 0o755)
	defer os.RemoveAll(dir)
	// the real input file is JSON (any stream can be written in it), named
	// through the virtual extension iext
	b, err := fsx.Encode("json", toTagged(docs))
	if err != nil {
		Fatal("encode: %v", err)
	}
	real := "in.json"
	if iext == "json" {
		real = "in.json"
	}
	os.WriteFile(filepath.Join(dir, real), b, 0o644)
	argv := []string{filepath.Join(binDir(), "bkl")}
	// the spelling and the place of an option do not matter: short, long, long with "=",
	// attached, before or after the inputs (og is separate so that the streams stay as they were)
	og := gen.New(int64(len(b))*131 + int64(len(fflag)+7*len(oext)+49*len(iext)))
	var opts []string
	if fflag != "" {
		opts = append(opts, [][]string{{"-f", fflag}, {"--format", fflag}, {"--format=" + fflag}, {"-f" + fflag}}[og.N(4)]...)
	}
	opath := ""
	if oext != "" {
		opath = "out." + oext
		o := [][]string{{"-o", opath}, {"--output", opath}, {"--output=" + opath}, {"-o" + opath}}[og.N(4)]
		if og.P(0.5) {
			opts = append(o, opts...)
		} else {
			opts = append(opts, o...)
		}
		if g.P(0.5) {
			// the output file exists already and is LONGER than what will be written
			os.WriteFile(filepath.Join(dir, opath), []byte(strings.Repeat("stale: content of an earlier run\n", 200)), 0o644)
		}
	}
	input := "in." + iext
	optsLast := og.P(0.4)
	if !optsLast {
		argv = append(argv, opts...)
	}
	argv = append(argv, input)
	inputs := []string{"/w/" + input}
	if len(docs) > 1 && g.P(0.25) {
		// two inputs: the stream is split over two files, the second named through ANOTHER
		// (virtual) extension - the first input's extension alone selects the format
		k := 1 + g.N(len(docs)-1)
		b1, _ := fsx.Encode("json", toTagged(docs[:k]))
		b2, _ := fsx.Encode("json", toTagged(docs[k:]))
		os.WriteFile(filepath.Join(dir, real), b1, 0o644)
		os.WriteFile(filepath.Join(dir, "second.json"), b2, 0o644)
		in2 := "second." + g.Pick([]string{"yaml", "toml", "json", "yml", "jsonl", "json-pretty"})
		argv = append(argv, in2)
		inputs = append(inputs, "/w/"+in2)
	}
	if optsLast {
		argv = append(argv, opts...)
	}
	res := fsx.Run(dir, argv, nil, nil, procTimeout, false)
	out := res.Stdout
	if opath != "" && res.Exit == 0 {
		out, _ = os.ReadFile(filepath.Join(dir, opath))
	}
	eff := iext
	if oext != "" {
		eff = oext
	}
	if fflag != "" {
		eff = fflag
	}
	via := "cli"
	mo := "/w/" + opath
	if opath == "" {
		mo = ""
	}
	_ = strings.TrimSpace
	return emitEvent(docs, via, "", fflag, mo, inputs, res.Exit == 0 && !res.TimedOut && !res.Panicked, out, dir, classOf(eff), eff, kf)
}
