// Package checks holds one decision procedure per property.
package checks

import (
	"encoding/json"
	"fmt"
	"os"
	"path/filepath"
	"runtime"
	"strconv"
	"strings"
	"syscall"
	"time"

	"bklverif/tlc"
	"bklverif/tv"
)

// Verif is the home of the machinery: /verif, or the copy bin/check was started from
var Verif = home()

// RepoDir is the tree under test (bin/check builds the harness and the CLIs from it)
func RepoDir() string {
	if h := os.Getenv("BKL_REPO"); h != "" {
		return h
	}
	return "/repo"
}

func home() string {
	if h := os.Getenv("BKLV_HOME"); h != "" {
		return h
	}
	return "/verif"
}

// Run is the context of one check invocation.
type Run struct {
	ID         string
	Tier       string // quick | thorough
	Seed       int64
	Dir        string // scratch directory, removed at the end
	Start      time.Time
	Viol       []Violation
	Known      map[string]int // known-finding id -> hits
	Cov        map[string]any
	Assume     []string
	Level      string
	Samples    []any
	UndefLimit float64
}

type Violation struct {
	Why    string
	Replay string
}

func NewRun(id, tier string) *Run {
	seed := int64(1)
	if s := os.Getenv("VERIF_SEED"); s != "" {
		if n, err := strconv.ParseInt(s, 10, 64); err == nil {
			seed = n
		}
	}
	if t := os.Getenv("VERIF_TIER"); t == "quick" || t == "thorough" {
		tier = t
	}
	if old, _ := filepath.Glob(filepath.Join(Verif, "out", "replays", id+"-*.json")); len(old) > 0 {
		for _, f := range old {
			os.Remove(f)
		}
	}
	// scratch directories of runs that were killed (their process is gone) are removed
	if olds, _ := filepath.Glob(filepath.Join(Verif, "out", "run", "*-*")); len(olds) > 0 {
		for _, o := range olds {
			var pid int
			if i := strings.LastIndex(o, "-"); i >= 0 {
				fmt.Sscan(o[i+1:], &pid)
			}
			if pid > 0 && syscall.Kill(pid, 0) != nil {
				os.RemoveAll(o)
			}
		}
	}
	dir := filepath.Join(Verif, "out", "run", fmt.Sprintf("%s-%d", id, os.Getpid()))
	os.RemoveAll(dir)
	if err := os.MkdirAll(dir, 0o755); err != nil {
		Fatal("mkdir: %v", err)
	}
	return &Run{ID: id, Tier: tier, Seed: seed, Dir: dir, Start: time.Now(),
		Known: map[string]int{}, Cov: map[string]any{}, Level: "model_checking", UndefLimit: 0.05,
		Assume: []string{"TLC evaluates the TLA+ specification correctly", "the tv projection between Go values and tagged trees is faithful", "generated inputs stay inside the domain listed in DESIGN.md Appendix B"}}
}

func (r *Run) Logf(format string, a ...any) {
	fmt.Fprintf(os.Stderr, "[%6.1fs] "+format+"\n", append([]any{time.Since(r.Start).Seconds()}, a...)...)
}

func (r *Run) Thorough() bool { return r.Tier == "thorough" }

// Pick returns q in the quick tier and t in the thorough tier.
func (r *Run) Pick(q, t int) int {
	if r.Thorough() {
		return t
	}
	return q
}

func Cores() int {
	n := runtime.NumCPU()
	if n > 16 {
		n = 16
	}
	if n < 1 {
		n = 1
	}
	return n
}

// Fatal reports a machinery failure: exit 2, never a verdict.
func Fatal(format string, a ...any) {
	fmt.Fprintf(os.Stderr, "MACHINERY-ERROR: "+format+"\n", a...)
	os.Exit(2)
}

// Violate records a violation with a replay file holding `payload`.
func (r *Run) Violate(why string, payload any) {
	dir := filepath.Join(Verif, "out", "replays")
	os.MkdirAll(dir, 0o755)
	path := filepath.Join(dir, fmt.Sprintf("%s-%03d.json", r.ID, len(r.Viol)+1))
	b, _ := json.MarshalIndent(map[string]any{"property": r.ID, "why": why, "case": payload}, "", " ")
	os.WriteFile(path, b, 0o644)
	r.Viol = append(r.Viol, Violation{why, path})
	if len(r.Viol) <= 20 {
		fmt.Printf("VIOLATION property=%s replay=%s\n", r.ID, path)
		fmt.Printf("  reason: %s\n", why)
	}
}

func (r *Run) Sample(s any) {
	if len(r.Samples) < 5 {
		r.Samples = append(r.Samples, s)
	}
}

// Finish writes the evidence file and exits.
func (r *Run) Finish() {
	ev := map[string]any{
		"property_id": r.ID,
		"tier":        r.Tier,
		"seed":        r.Seed,
		"level":       r.Level,
		"coverage":    r.Cov,
		"assumptions": r.Assume,
		"wall_s":      time.Since(r.Start).Seconds(),
		"violations":  len(r.Viol),
	}
	if _, ok := r.Cov["samples"]; !ok {
		r.Cov["samples"] = r.Samples
	}
	if len(r.Known) > 0 {
		r.Cov["known_findings_hit"] = r.Known
	}
	b, err := json.MarshalIndent(ev, "", " ")
	if err != nil {
		Fatal("evidence: %v", err)
	}
	evDir := filepath.Join(Verif, "evidence")
	if len(r.ID) != 3 || r.ID[0] != 'C' {
		evDir = filepath.Join(Verif, "out") // maintenance runs (FIX, SELFTEST) are not evidence of a property
	}
	os.MkdirAll(evDir, 0o755)
	if err := os.WriteFile(filepath.Join(evDir, r.ID+".json"), b, 0o644); err != nil {
		Fatal("evidence: %v", err)
	}
	if os.Getenv("BKLV_KEEP") == "" {
		os.RemoveAll(r.Dir)
	}
	if len(r.Viol) > 0 {
		fmt.Printf("%s %s: %d violation(s) in %.1fs\n", r.ID, r.Tier, len(r.Viol), time.Since(r.Start).Seconds())
		os.Exit(1)
	}
	fmt.Printf("%s %s: ok in %.1fs\n", r.ID, r.Tier, time.Since(r.Start).Seconds())
	os.Exit(0)
}

// J marshals an event canonically (ASCII only).
func J(v any) []byte { return tv.Canon(v) }

// ---------------------------------------------------------------------------
// known findings

type Finding struct {
	Kind     string // known | fixed
	Property string
	ID       string
	Text     string
}

func LoadFindings() []Finding {
	b, err := os.ReadFile(filepath.Join(Verif, "KNOWN_FINDINGS.txt"))
	if err != nil {
		return nil
	}
	var out []Finding
	for _, line := range strings.Split(string(b), "\n") {
		line = strings.TrimSpace(line)
		if line == "" || strings.HasPrefix(line, "#") {
			continue
		}
		f := Finding{}
		switch {
		case strings.HasPrefix(line, "known:"):
			f.Kind = "known"
			line = strings.TrimSpace(strings.TrimPrefix(line, "known:"))
		case strings.HasPrefix(line, "fixed:"):
			f.Kind = "fixed"
			line = strings.TrimSpace(strings.TrimPrefix(line, "fixed:"))
		default:
			continue
		}
		for _, w := range strings.Fields(line) {
			if strings.HasPrefix(w, "property=") {
				f.Property = strings.TrimPrefix(w, "property=")
			}
			if strings.HasPrefix(w, "id=") {
				f.ID = strings.TrimPrefix(w, "id=")
			}
		}
		f.Text = line
		out = append(out, f)
	}
	return out
}

// KnownFor returns the set of known-finding ids listed for a property.
func KnownFor(prop string) map[string]string {
	m := map[string]string{}
	for _, f := range LoadFindings() {
		if f.Kind == "known" && f.Property == prop {
			m[f.ID] = f.Text
		}
	}
	return m
}

// ReportKnown prints the KNOWN-FINDING lines for the findings that fired.
func (r *Run) ReportKnown() {
	known := KnownFor(r.ID)
	for id, n := range r.Known {
		if n > 0 {
			fmt.Printf("KNOWN-FINDING: %s (%d case(s) this run)\n", known[id], n)
		}
	}
}

// ---------------------------------------------------------------------------
// trace validation helper shared by the library-level checks

type Sess struct {
	Lines [][]byte
	Meta  any // what to put in a replay file
}

func (r *Run) Validate(family string, sessions []Sess, extraHeader map[string]any) *tlc.ShardedResult {
	ss := make([]tlc.Session, len(sessions))
	n := 0
	for i, s := range sessions {
		ss[i] = s.Lines
		n += len(s.Lines)
	}
	shards := Cores()
	if n < 400 {
		shards = 2
	}
	to := 10 * time.Minute
	if r.Thorough() {
		to = 40 * time.Minute
	}
	res, err := tlc.ValidateSharded(filepath.Join(r.Dir, "tv-"+family), family, ss, extraHeader, shards, to)
	if err != nil {
		Fatal("trace validation (%s): %v", family, err)
	}
	if res.Events > 0 && float64(res.Undef) > r.UndefLimit*float64(res.Events) {
		Fatal("trace validation (%s): %d of %d events outside the modelled domain", family, res.Undef, res.Events)
	}
	return res
}

func Lines(sess Sess) []any {
	out := make([]any, len(sess.Lines))
	for i, l := range sess.Lines {
		var v any
		json.Unmarshal(l, &v)
		out[i] = v
	}
	return out
}
