package checks

import "fmt"

// Fixtures validates the evaluator of the specification against the
// repository's own fixture corpus (not a MANIFEST check; used while growing
// the specification and inside several checks as a regression corpus).
func Fixtures(r *Run) {
	sessions, names := fixtureSessions(RepoDir())
	r.UndefLimit = 1
	res, answered := r.ValidateWithCodecs("FIX", sessions)
	fmt.Printf("codec values supplied by the environment: %d\n", answered)
	for _, b := range res.Bad {
		fmt.Printf("fixture %s: %s\n", names[b.Session], b.Why)
	}
	fmt.Printf("fixtures: %d recorded, %d compared, %d outside the modelled domain, %d rejected\n",
		len(sessions), res.Checked, res.Undef, len(res.Bad))
	// the same corpus through the FILE route: real bkl on the fixture's files, the
	// layers meaning what the independent decoders read from them
	ls, lnames, skipped := fixtureLayouts(RepoDir())
	var fsess []Sess
	var fnames []string
	for i, l := range ls {
		if s, ok := runSession(r, l, false); ok {
			fsess = append(fsess, s)
			fnames = append(fnames, lnames[i])
		}
	}
	fres, _ := r.ValidateWithCodecs("FIXFILES", fsess)
	for _, b := range fres.Bad {
		fmt.Printf("fixture (file route) %s: event %d: %s\n", fnames[b.Session], b.Event, b.Why)
	}
	fmt.Printf("fixtures through the file route: %d run, %d events compared, %d outside the modelled domain, %d rejected; skipped: %v\n",
		len(fsess), fres.Checked, fres.Undef, len(fres.Bad), skipped)
	r.Cov["evaluations"] = len(sessions) + len(fsess)
	r.Cov["distinct_nontrivial"] = len(sessions) + len(fsess)
}
