package checks

import "fmt"

// Fixtures validates the evaluator of the specification against the
// repository's own fixture corpus (not a MANIFEST check; used while growing
// the specification and inside several checks as a regression corpus).
func Fixtures(r *Run) {
	sessions, names := fixtureSessions(RepoDir())
	r.UndefLimit = 1
	res, answered := r.ValidateWithCodecs("FIX", sessions)
	fmt.Printf("codec values supplied by the environment: %d\n", answered)
	for _, b := range res.Bad {
		fmt.Printf("fixture %s: %s\n", names[b.Session], b.Why)
	}
	fmt.Printf("fixtures: %d recorded, %d compared, %d outside the modelled domain, %d rejected\n",
		len(sessions), res.Checked, res.Undef, len(res.Bad))
	r.Cov["evaluations"] = len(sessions)
	r.Cov["distinct_nontrivial"] = len(sessions)
}
