package checks

import (
	"crypto/sha1"
	"encoding/json"
	"fmt"
	"path/filepath"
	"sync"
	"time"

	"bklverif/tlc"

	"bklverif/gen"
	"bklverif/real"
	"bklverif/tv"
)

// chainSession records one layer chain: base, then 1-3 children generated
// relative to the real merged state, through successive MergeDocument calls
// on one live Parser, with Documents() after every step.
func chainSession(g *gen.G, idx int) Sess {
	s := real.NewSess()
	var lines [][]byte
	lines = append(lines, J(map[string]any{"ev": "Reset"}))
	var base any
	switch g.N(10) {
	case 0:
		base = g.List(g.MaxDepth)
	case 1:
		base = g.Scalar()
	default:
		base = g.Map(g.MaxDepth)
	}
	layers := []any{}
	prev := []string{}
	cur := base
	nl := 1 + g.N(3)
	for j := 0; j <= nl; j++ {
		var data any
		if j == 0 {
			data = base
		} else {
			data = g.Patch(cur, g.MaxDepth)
			// a root-level $match would be a stream directive (C02); keep C01 to pure layering
			if m, ok := data.(map[string]any); ok {
				delete(m, "$match")
			}
		}
		id := fmt.Sprintf("s%d.L%d", idx, j)
		t := tv.FromGo(data)
		layers = append(layers, t)
		o := s.MergeDocument(id, prev, t)
		ev := map[string]any{"ev": "MergeDocument",
			"patch": map[string]any{"id": id, "parents": prev, "data": t},
			"ok":    o.OK, "err": o.Class, "docs": s.Docs()}
		if o.Panic {
			ev["panic"] = o.Msg
		}
		lines = append(lines, J(ev))
		if !o.OK {
			break
		}
		lines = append(lines, J(map[string]any{"ev": "Documents", "docs": s.Docs()}))
		prev = []string{id}
		ds := s.P.Documents()
		if len(ds) != 1 {
			break
		}
		cur = ds[0].Data
	}
	return Sess{Lines: lines, Meta: map[string]any{"layers": layers}}
}

// mergeVector is one transition explored by the bounded model MC_Merge.
type mergeVector struct {
	Base tv.T   `json:"base"`
	Hist []tv.T `json:"hist"`
	Dst  tv.T   `json:"dst"`
	Src  tv.T   `json:"src"`
	OK   bool   `json:"ok"`
	V    tv.T   `json:"v"`
	Err  string `json:"err"`
}

// replayMerge performs the transition on the real library: a fresh Parser,
// the pre-state document appended, the patch layered on it.
func replayMerge(v *mergeVector) (agree bool, obs map[string]any) {
	s := real.NewSess()
	o0 := s.MergeDocument("base", nil, v.Base)
	if !o0.OK {
		return false, map[string]any{"stage": "append base", "err": o0.Msg}
	}
	prev := "base"
	for i, h := range v.Hist {
		id := fmt.Sprintf("h%d", i)
		if oh := s.MergeDocument(id, []string{prev}, h); !oh.OK {
			return false, map[string]any{"stage": fmt.Sprintf("history layer %d rejected", i), "err": oh.Msg}
		}
		prev = id
	}
	if ds := s.P.Documents(); len(ds) != 1 || !tv.Equal(tv.FromGo(ds[0].Data), v.Dst) {
		return false, map[string]any{"stage": "state after the history differs from the specification", "docs": s.Docs()}
	}
	o := s.MergeDocument("patch", []string{prev}, v.Src)
	obs = map[string]any{"ok": o.OK, "err": o.Msg}
	if o.Panic {
		obs["panic"] = true
	}
	if o.OK != v.OK {
		return false, obs
	}
	if !o.OK {
		return true, obs
	}
	ds := s.P.Documents()
	if len(ds) != 1 {
		obs["docs"] = s.Docs()
		return false, obs
	}
	got := tv.FromGo(ds[0].Data)
	obs["v"] = got
	return tv.Equal(got, v.V), obs
}

// modelMerge runs MC_Merge sharded over processes and replays every vector.
func modelMerge(r *Run, maxLayers, fullDepth int) (states, distinct, vectors, replayed int64, cmd string) {
	nsh := 8
	var mu sync.Mutex
	seen := map[[20]byte]bool{}
	var wg sync.WaitGroup
	for sh := 0; sh < nsh; sh++ {
		wg.Add(1)
		go func(sh int) {
			defer wg.Done()
			dir := filepath.Join(r.Dir, fmt.Sprintf("mc-merge-%d", sh))
			cfg := fmt.Sprintf("SPECIFICATION Spec\nCONSTANTS\n CharOrder <- AsciiOrder\n LowerSet <- AsciiLower\n MaxFuel = 64\n MaxLayers = %d\n FullDepth = %d\n Shard = %d\n NShards = %d\nINVARIANT Bounded\nCHECK_DEADLOCK FALSE\n", maxLayers, fullDepth, sh, nsh)
			res, err := tlc.RunModelCfg(dir, "MC_Merge", cfg, 2, "4g", 60*time.Minute, func(js []byte) {
				h := sha1.Sum(js)
				mu.Lock()
				vectors++
				dup := seen[h]
				seen[h] = true
				mu.Unlock()
				if dup {
					return
				}
				var v mergeVector
				if err := json.Unmarshal(js, &v); err != nil {
					Fatal("bad vector from TLC: %v: %s", err, js)
				}
				agree, obs := replayMerge(&v)
				mu.Lock()
				replayed++
				if replayed <= 3 {
					r.Sample(map[string]any{"vector": json.RawMessage(js)})
				}
				if !agree {
					r.Violate("bounded model transition: the real library disagrees with the specification",
						map[string]any{"kind": "vector", "vector": json.RawMessage(js), "observed": obs})
				}
				mu.Unlock()
			})
			if err != nil {
				Fatal("MC_Merge: %v", err)
			}
			if res.InvariantBad {
				Fatal("MC_Merge: the specification violates its own theorem (not a verdict about the code): %s", res.Output)
			}
			mu.Lock()
			states += res.Generated
			distinct += res.Distinct
			cmd = res.Cmd
			mu.Unlock()
		}(sh)
	}
	wg.Wait()
	return
}

func C01(r *Run) {
	mst, mdi, mvec, mrep, mcmd := modelMerge(r, 4, r.Pick(1, 2))
	r.Logf("model: %d states, %d vectors, %d replayed", mst, mvec, mrep)
	if mrep < 1000 {
		Fatal("MC_Merge produced only %d vectors", mrep)
	}
	g := gen.New(r.Seed*7919 + 1)
	n := r.Pick(1500, 40000)
	sessions := make([]Sess, n)
	okChains, errChains := 0, 0
	distinct := map[string]bool{}
	gb := gen.New(r.Seed*7919 + 100001).Big() // every 12th chain in the large regime (wide, deep, non-ASCII keys)
	for i := range sessions {
		if i%12 == 11 {
			sessions[i] = chainSession(gb, i)
		} else {
			sessions[i] = chainSession(g, i)
		}
		last := string(sessions[i].Lines[len(sessions[i].Lines)-1])
		if len(last) > 0 && last[0] == '{' && contains(last, `"ev":"Documents"`) {
			okChains++
		} else {
			errChains++
		}
		distinct[string(J(sessions[i].Meta))] = true
	}
	r.Logf("generated %d sessions", len(sessions))
	res := r.Validate("C01", sessions, nil)
	r.Logf("validated")
	for _, b := range res.Bad {
		s := sessions[b.Session]
		r.Violate(fmt.Sprintf("layer chain: event %d: %s", b.Event, b.Why),
			map[string]any{"kind": "trace", "events": Lines(s), "event": b.Event})
	}
	r.Sample(map[string]any{"layers_of_first_chain": sessions[0].Meta})
	r.Cov["states"] = mdi
	r.Cov["transitions"] = mst
	r.Cov["model_vectors_emitted"] = mvec
	r.Cov["model_vectors_replayed_on_impl"] = mrep
	r.Cov["model_cmd"] = mcmd
	r.Cov["model_theorems_checked_by_tlc"] = []string{"MergeIsDocumented", "Preserved", "Concat", "ScalarWins", "DeleteRemoves", "ReplaceIsChild"}
	r.Cov["traces_validated_against_impl"] = len(sessions)
	r.Cov["trace_states"] = res.Generated
	r.Cov["trace_events"] = res.Events
	r.Cov["trace_events_compared"] = res.Checked
	r.Cov["chains_accepted_by_code"] = okChains
	r.Cov["chains_rejected_by_code"] = errChains
	r.Cov["evaluations"] = len(sessions)
	r.Cov["distinct_nontrivial"] = len(distinct)
	r.Cov["rule"] = "layer chains of 2-4 layers; children generated relative to the real merged state with the whole catalogue of override forms; distinct = distinct layer sequences"
	r.Cov["checker_cmd"] = first(res.Cmds)

}

func contains(s, sub string) bool {
	return len(s) >= len(sub) && (func() bool {
		for i := 0; i+len(sub) <= len(s); i++ {
			if s[i:i+len(sub)] == sub {
				return true
			}
		}
		return false
	})()
}

func first(ss []string) string {
	if len(ss) == 0 {
		return ""
	}
	return ss[0]
}
