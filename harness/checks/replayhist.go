package checks

import (
	"bytes"
	"encoding/json"
	"fmt"
	"strings"

	"bklverif/real"
	"bklverif/tv"
)

type histStep struct {
	Op    string `json:"op"`
	Patch *struct {
		ID      string   `json:"id"`
		Parents []string `json:"parents"`
		Data    tv.T     `json:"data"`
	} `json:"patch"`
	OK   bool  `json:"ok"`
	Docs []any `json:"docs"`
	Outs []any `json:"outs"`
}

type histVector struct {
	Family string     `json:"family"`
	Steps  []histStep `json:"steps"`
}

func docsEqual(a, b []any) bool { return bytes.Equal(tv.Canon(a), tv.Canon(b)) }

// jsonStreamToTagged decodes a JSON stream the way an independent reader
// would and projects it onto tagged trees.
func jsonStreamToTagged(b []byte) ([]any, error) {
	dec := json.NewDecoder(bytes.NewReader(b))
	dec.UseNumber()
	out := []any{}
	for dec.More() {
		var v any
		if err := dec.Decode(&v); err != nil {
			return nil, err
		}
		out = append(out, tagJSON(v))
	}
	return out, nil
}

func tagJSON(v any) any {
	switch x := v.(type) {
	case map[string]any:
		m := map[string]any{}
		for k, e := range x {
			m[k] = tagJSON(e)
		}
		return tv.T{"m", m}
	case []any:
		l := make([]any, len(x))
		for i, e := range x {
			l[i] = tagJSON(e)
		}
		return tv.T{"l", l}
	case json.Number:
		s := string(x)
		if !strings.ContainsAny(s, ".eE") {
			return tv.T{"i", s}
		}
		f, _ := x.Float64()
		return tv.T{"f", tv.FloatToken(f)}
	default:
		return tv.FromGo(v)
	}
}

// replayHistory drives ONE live Parser along the whole call history of a
// vector and compares the projected state after every call.
func replayHistory(v *histVector) (string, map[string]any) {
	s := real.NewSess()
	var lastBytes []byte
	for i, st := range v.Steps {
		fail := func(why string, extra map[string]any) (string, map[string]any) {
			if extra == nil {
				extra = map[string]any{}
			}
			extra["step"] = i
			extra["op"] = st.Op
			return fmt.Sprintf("call %d (%s): %s", i, st.Op, why), extra
		}
		switch st.Op {
		case "base":
			for _, d := range st.Docs {
				dm := d.(map[string]any)
				o := s.MergeDocument(dm["id"].(string), nil, dm["data"].([]any))
				if !o.OK {
					return fail("cannot append base document: "+o.Msg, nil)
				}
			}
		case "merge":
			lastBytes = nil
			o := s.MergeDocument(st.Patch.ID, st.Patch.Parents, st.Patch.Data)
			if o.OK != st.OK {
				return fail(fmt.Sprintf("specification ok=%v, library ok=%v (%s)", st.OK, o.OK, o.Msg), nil)
			}
			if !o.OK {
				return "", nil
			}
		case "docs":
		case "out":
			o, outs := s.OutputDocuments()
			if o.OK != st.OK {
				return fail(fmt.Sprintf("specification ok=%v, library ok=%v (%s)", st.OK, o.OK, o.Msg), nil)
			}
			if o.OK && !docsEqual(outs, st.Outs) {
				return fail("outputs differ", map[string]any{"observed": outs, "expected": st.Outs})
			}
		case "outbytes":
			o, b := s.Output("json")
			if o.OK != st.OK {
				return fail(fmt.Sprintf("specification ok=%v, library ok=%v (%s)", st.OK, o.OK, o.Msg), nil)
			}
			if o.OK {
				outs, err := jsonStreamToTagged(b)
				if err != nil || !docsEqual(outs, st.Outs) {
					return fail("output bytes decode to something else", map[string]any{"bytes": string(b), "expected": st.Outs})
				}
				if lastBytes != nil && !bytes.Equal(lastBytes, b) {
					return fail("two output calls on the same state returned different bytes", map[string]any{"first": string(lastBytes), "second": string(b)})
				}
				lastBytes = b
			}
		}
		if st.Op != "merge" || st.OK {
			if got := s.Docs(); !docsEqual(got, st.Docs) {
				return fail("Documents() differs from the merged, unevaluated state", map[string]any{"observed": got, "expected": st.Docs})
			}
		}
	}
	return "", nil
}
