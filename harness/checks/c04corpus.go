package checks

import (
	"fmt"
	"os"
	"path/filepath"
	"strings"

	"github.com/gopatchy/bkl"

	"bklverif/fsx"
	"bklverif/indep"
	"bklverif/tv"
)

// formatCorpus: hand-written layer texts that use the corners of YAML and
// TOML syntax. What a text MEANS is decided by the independent decoder (PyYAML
// with the YAML 1.2 core schema / tomllib); the text is then given to bkl as
// the layer a.<ext>, and TLC compares bkl's result with the specification's
// evaluation of the independently decoded documents. Texts the independent
// decoder rejects, or whose meaning has no place in bkl's data model
// (non-string keys, dates), are skipped and counted.
var formatCorpus = []struct{ ext, text string }{
	// YAML: merge keys
	{"yaml", "base: &b {p: 1, q: two}\nsvc:\n  <<: *b\n  r: 3\n"},
	{"yaml", "a: &a {p: 1, q: 1}\nb: &b {q: 2, r: 2}\nsvc:\n  <<: [*a, *b]\n  s: own\n"},
	{"yaml", "a: &a {p: null, q: 1}\nb: &b {p: http, r: 2}\nsvc:\n  <<: [*a, *b]\n"},
	{"yaml", "a: &a {p: 1}\nb: &b {p: null, r: 2}\nsvc:\n  <<: [*a, *b]\n  t: [1, 2]\n"},
	{"yaml", "a: &a {p: 1, q: {deep: 1}}\nsvc:\n  q: {own: 2}\n  <<: *a\n"},
	{"yaml", "a: &a {p: 1}\nsvc:\n  p: 2\n  <<: *a\n"},
	{"yaml", "l:\n  - &x {k: 1}\n  - <<: *x\n    j: 2\n"},
	// YAML: anchors and aliases of scalars, lists, nested
	{"yaml", "v: &v 42\nw: *v\nl: &l [1, *v]\nm: *l\n"},
	{"yaml", "s: &s \"text\"\nmap: {a: *s, b: [*s, *s]}\n"},
	{"yaml", "outer: &o\n  inner: &i {x: 1.5}\n  again: *i\ncopy: *o\n"},
	// YAML: scalars of the core schema
	// decimal notation only: bkl rejects 0x1F / 0o17 / 1_000 in YAML (DESIGN.md, observations)
	{"yaml", "i: [0, -0, +7, 9223372036854775807, -9223372036854775808]\n"},
	// no integral floats: bkl turns 1.0 into 1 by design (Appendix B)
	{"yaml", "f: [1.5E-3, .5, 2.5e0, -0.25, 1.7976931348623157e+308, 5e-324]\n"},
	{"yaml", "b: [true, True, TRUE, false, False, FALSE]\nn: [null, Null, NULL, ~]\ne:\n"},
	{"yaml", "s: ['true', \"null\", '1', \"1.5\", '', \" \", yes, no, on, off, y, n]\n"},
	{"yaml", "s: [\"a\\tb\", \"q\\\"q\", 'it''s', \"\\u00e9\", \"line1\\nline2\", plain text here, 'x: y', \"#no comment\"]\n"},
	// YAML: plain scalars that look like timestamps are strings for bkl, spelled as written
	{"yaml", "when: 2022-02-05T10:30:00+02:00\nfrac: 2001-12-14T21:59:43.10Z\nzero: 2001-12-14T21:59:43+00:00\nl: [2002-12-14, 2001-12-14 21:59:43.10 -5]\n"},
	// YAML: block scalars, folding, comments, multi-line flow
	{"yaml", "lit: |\n  line1\n  line2\nfold: >\n  a\n  b\n\n  c\nstrip: |-\n  x\nkeep: |+\n  y\n\n"},
	{"yaml", "# head\na: 1 # trailing\n# middle\nb:\n  # inner\n  c: 2\n"},
	{"yaml", "m: {a: 1,\n  b: [1,\n    2],\n  c: {d: e}}\nl: [\n  x, y,\n]\n"},
	{"yaml", "\"quoted key\": 1\n'single': 2\n? complex\n: 3\nempty: {}\nnone: []\n"},
	{"yaml", "a:\n- 1\n- - 2\n  - 3\n- k: v\n  j: w\n"},
	// YAML: streams
	{"yaml", "a: 1\n---\nb: 2\n---\nc: 3\n"},
	{"yaml", "---\na: 1\n...\n---\nb: 2\n...\n"},
	{"yaml", "a: 1\n--- # two\nb: 2\n---   \nc: 3\n"},
	{"yaml", "a: 1\r\n---\r\nb: [1,\r\n  2]\r\n"},
	{"yaml", "--- {a: 1}\n--- [1, 2]\n--- text\n"},
	{"yaml", "a: &x 1\n---\nb: 2\n"},
	// TOML: tables, arrays of tables, dotted and quoted keys, inline tables
	{"toml", "a = 1\n[t]\nb = 2\n[t.u]\nc = 3\n[v.w.x]\nd = 4\n"},
	{"toml", "[[l]]\nk = 1\n[[l]]\nk = 2\n[l.sub]\nz = true\n[[l]]\n"},
	{"toml", "a.b.c = 1\na.b.d = 2\na.e = \"x\"\n\"quoted key\".\"k.dot\" = 3\n'lit' = 4\n"},
	{"toml", "p = { x = 1, y = { z = [1, 2] } }\nl = [ { a = 1 }, { a = 2, b = [] } ]\n"},
	{"toml", "i = [0, +7, -7, 1_000, 0x1F, 0o17, 0b101, 9223372036854775807, -9223372036854775808]\n"},
	{"toml", "f = [1.5E-3, 6.26e-34, 1_0.0_1, -0.25, 1.7976931348623157e+308, 5e-324]\n"},
	{"toml", "s = [\"a\\tb\", \"q\\\"q\", 'C:\\path', \"\\u00e9\", \"\"\"\nfirst\nsecond\\\n   joined\"\"\", '''\nraw\n''']\n"},
	{"toml", "b = [true, false]\nmixed = [1, \"a\", 1.5, true, [2], {k = 3}]\nempty = []\n[e]\n"},
	{"toml", "# comment\na = 1 # trailing\n\n[t] # table\nb = 2\n"},
	{"toml", "a = 1\n---\nb = 2\n+++\nc = 3\n"},
	{"toml", "a = 1\r\n---\r\n[t]\r\nb = 2\r\n"},
	{"toml", "[fruit]\napple.color = \"red\"\napple.taste.sweet = true\n[fruit.apple.texture]\nsmooth = true\n"},
	// JSON: streams, whitespace, escapes, numbers
	{"json", "{\"a\":1}{\"b\":2}\n  {\"c\":[1,2.5,-0,15e-1,1E-2]}"},
	{"json", "{\"s\":[\"\\u00e9\\n\\t\\\"\\\\\\/\",\"\"],\"n\":null,\"b\":[true,false],\"e\":{},\"l\":[]}"},
	{"json", "{\"big\":9223372036854775807,\"min\":-9223372036854775808,\"f\":0.30000000000000004,\"t\":5e-324}"},
	{"json", "[1,2]\n\"text\"\n3\n"},
	// .jsonl is an alias of .json: documents may span lines there too
	{"jsonl", "{\n  \"a\": 1,\n  \"l\": [\n    1,\n    2\n  ]\n}\n{\"b\": 2}\n"},
	{"jsonl", "{\"a\":1}\n{\"b\":\n2}\n\n{\"c\":[\n]}"},
}

// corpusLayouts turns the corpus into single-layer layouts whose documents are
// the independent reading of the text.
// longLineTexts: a line longer than 64 KiB (a certificate, a base64 blob) in every
// format, with more content after it.
func longLineTexts() []struct{ ext, text string } {
	blob := strings.Repeat("x", 70000)
	return []struct{ ext, text string }{
		{"toml", "port = 8080\nblob = \"" + blob + "\"\nextra = true\n[tags]\nenv = \"prod\"\n---\nsecond = 2\n"},
		{"yaml", "port: 8080\nblob: \"" + blob + "\"\nextra: true\ntags:\n  env: prod\n---\nsecond: 2\n"},
		{"json", "{\"port\": 8080, \"blob\": \"" + blob + "\", \"extra\": true, \"tags\": {\"env\": \"prod\"}}\n{\"second\": 2}\n"},
		{"jsonl", "{\"port\": 8080, \"blob\": \"" + blob + "\", \"extra\": true}\n{\"second\": 2}\n"},
	}
}

// expandedCorpus: texts the independent YAML decoder refuses although YAML allows them (an anchor
// name defined again: an alias refers to the LATEST definition before it, YAML 1.2 section 3.2.2.2).
// Their meaning is the independent decoding of the expanded text next to them.
var expandedCorpus = []struct{ ext, text, expanded string }{
	{"yaml", "blue: &c {name: b}\nsky: *c\nred: &c {name: r}\nrose: *c\n", "blue: {name: b}\nsky: {name: b}\nred: {name: r}\nrose: {name: r}\n"},
	{"yaml", "a: &v 1\nb: *v\nc: &v two\nd: [*v, *v]\ne: &v [3]\nf: *v\n", "a: 1\nb: 1\nc: two\nd: [two, two]\ne: [3]\nf: [3]\n"},
	{"yaml", "l:\n  - &x {k: 1}\n  - *x\n  - &x {k: 2}\n  - <<: *x\n    j: 3\n", "l:\n  - {k: 1}\n  - {k: 1}\n  - {k: 2}\n  - {k: 2, j: 3}\n"},
}

func corpusLayouts() (ls []*layout, skipped int) {
	for _, c := range expandedCorpus {
		docs, ok, _, err := indep.Decode(c.ext, c.expanded)
		if err != nil || !ok || len(docs) == 0 || !representable(docs) {
			Fatal("expanded corpus text not decodable: %q", c.expanded)
		}
		e := fsx.Entry{Kind: "file", Raw: []byte(c.text)}
		for _, d := range docs {
			e.Docs = append(e.Docs, d.([]any))
		}
		ls = append(ls, &layout{Fs: map[string]fsx.Entry{"/w/a." + c.ext: e}, Inputs: []string{"a." + c.ext}, Root: "/"})
	}
	for _, c := range formatCorpus {
		docs, ok, _, err := indep.Decode(c.ext, c.text)
		if err != nil {
			Fatal("independent decoder: %v", err)
		}
		if !ok || len(docs) == 0 || !representable(docs) {
			skipped++
			continue
		}
		e := fsx.Entry{Kind: "file", Raw: []byte(c.text)}
		for _, d := range docs {
			e.Docs = append(e.Docs, d.([]any))
		}
		ls = append(ls, &layout{Fs: map[string]fsx.Entry{"/w/a." + c.ext: e}, Inputs: []string{"a." + c.ext}, Root: "/"})
	}
	return ls, skipped
}

// representable: the tagged tree uses only the tags of bkl's data model.
func representable(docs []any) bool {
	var ok func(t any) bool
	ok = func(t any) bool {
		tt, isT := t.([]any)
		if !isT || len(tt) != 2 {
			return false
		}
		switch tt[0] {
		case "m":
			for _, v := range tt[1].(map[string]any) {
				if !ok(v) {
					return false
				}
			}
			return true
		case "l":
			for _, v := range tt[1].([]any) {
				if !ok(v) {
					return false
				}
			}
			return true
		case "s", "i", "f", "b", "n":
			return true
		}
		return false
	}
	for _, d := range docs {
		if !ok(d) {
			return false
		}
	}
	_ = tv.Canon
	return true
}

// longLineCheck: the three long-line texts are compared outside TLC (its string
// operators work character by character; a 70 000-character payload does not
// finish): the documents the real Parser holds after MergeFile must be the
// documents the independent decoder reads - the same law as for the corpus.
func longLineCheck(r *Run) int {
	n := 0
	for _, c := range longLineTexts() {
		want, ok, _, err := indep.Decode(c.ext, c.text)
		if err != nil || !ok {
			Fatal("independent decoder on the long-line text (%s): %v", c.ext, err)
		}
		d := filepath.Join(r.Dir, "longline")
		os.MkdirAll(d, 0o755)
		p := filepath.Join(d, "a."+c.ext)
		os.WriteFile(p, []byte(c.text), 0o644)
		b, _ := bkl.New()
		got := []any{}
		merr := b.MergeFile(p)
		if merr == nil {
			for _, doc := range b.Documents() {
				got = append(got, tv.FromGo(doc.Data))
			}
		}
		n++
		if merr != nil || !docsEqual(got, want) {
			r.Violate(fmt.Sprintf("a %s layer with a line longer than 64 KiB is not read as the independent decoder reads it (error: %v; %d documents instead of %d)", c.ext, merr, len(got), len(want)),
				map[string]any{"kind": "longline", "ext": c.ext, "head": trunc(c.text, 60), "line_bytes": 70000})
		}
	}
	return n
}
