package checks

import (
	"encoding/json"
	"fmt"
	"os"
	"path/filepath"
	"sort"
	"strings"
	"sync"
	"sync/atomic"
	"time"

	"github.com/gopatchy/bkl"

	"bklverif/tlc"
)

// streamVector is one line sequence of MC_Stream with the documents the
// specification reads from it as YAML and as TOML.
type streamVector struct {
	Lines []string   `json:"lines"`
	Yaml  streamWant `json:"yaml"`
	Toml  streamWant `json:"toml"`
}

type streamWant struct {
	Model bool `json:"model"`
	OK    bool `json:"ok"`
	Docs  []struct {
		Null bool  `json:"null"`
		Keys []int `json:"keys"`
	} `json:"docs"`
}

// renderStream writes the line sequence in a format, with LF or CRLF.
func renderStream(lines []string, ext string, crlf bool) string {
	var sb strings.Builder
	nl := "\n"
	if crlf {
		nl = "\r\n"
	}
	for i, k := range lines {
		switch k {
		case "c":
			if ext == "toml" {
				fmt.Fprintf(&sb, "k%d = %d", i+1, i+1)
			} else {
				fmt.Fprintf(&sb, "k%d: %d", i+1, i+1)
			}
		case "bare":
			sb.WriteString("---")
		case "blank":
			sb.WriteString("---  ")
		case "cmt":
			sb.WriteString("--- # next")
		case "plus":
			sb.WriteString("+++")
		case "end":
			sb.WriteString("...")
		case "hash":
			sb.WriteString("# a comment")
		case "nl":
		}
		sb.WriteString(nl)
	}
	return sb.String()
}

var streamSeq int64

// readStream gives the text to a fresh Parser as the layer file a.<ext> and
// reports the documents it holds afterwards.
func readStream(r *Run, ext, text string) (ok bool, docs []string, msg string) {
	// one file per call in a directory of the run (names never repeat)
	d := filepath.Join(r.Dir, "streams")
	os.MkdirAll(d, 0o755)
	p := filepath.Join(d, fmt.Sprintf("s%d.%s", atomic.AddInt64(&streamSeq, 1), ext))
	defer os.Remove(p)
	if err := os.WriteFile(p, []byte(text), 0o644); err != nil {
		Fatal("stream file: %v", err)
	}
	b, err := bkl.New()
	if err != nil {
		Fatal("bkl.New: %v", err)
	}
	if err := b.MergeFile(p); err != nil {
		return false, nil, err.Error()
	}
	for _, doc := range b.Documents() {
		switch m := doc.Data.(type) {
		case nil:
			docs = append(docs, "null")
		case map[string]any:
			ks := []string{}
			for k, v := range m {
				ks = append(ks, fmt.Sprintf("%s=%v", k, v))
			}
			sort.Strings(ks)
			docs = append(docs, "{"+strings.Join(ks, ",")+"}")
		default:
			docs = append(docs, fmt.Sprintf("%T", doc.Data))
		}
	}
	return true, docs, ""
}

func wantDocs(w *streamWant, ext string) []string {
	out := []string{}
	for _, d := range w.Docs {
		if d.Null {
			out = append(out, "null")
			continue
		}
		ks := []string{}
		for _, k := range d.Keys {
			ks = append(ks, fmt.Sprintf("k%d=%d", k, k))
		}
		sort.Strings(ks)
		out = append(out, "{"+strings.Join(ks, ",")+"}")
	}
	return out
}

// modelStreams runs MC_Stream and reads every line sequence, as YAML and as
// TOML, with LF and with CRLF endings, through the real Parser.
func modelStreams(r *Run, maxLines int) modelStats {
	nsh := 4
	var st modelStats
	var mu sync.Mutex
	var wg sync.WaitGroup
	var compared int64
	for sh := 0; sh < nsh; sh++ {
		wg.Add(1)
		go func(sh int) {
			defer wg.Done()
			dir := filepath.Join(r.Dir, fmt.Sprintf("mc-stream-%d", sh))
			cfg := fmt.Sprintf("SPECIFICATION Spec\nCONSTANTS\n MaxLines = %d\n Shard = %d\n NShards = %d\nINVARIANT TypeOK\nCHECK_DEADLOCK FALSE\n", maxLines, sh, nsh)
			res, err := tlc.RunModelCfg(dir, "MC_Stream", cfg, 3, "3g", 60*time.Minute, func(js []byte) {
				var v streamVector
				if err := json.Unmarshal(js, &v); err != nil {
					Fatal("bad vector from TLC: %v: %.300s", err, js)
				}
				mu.Lock()
				st.Vectors++
				mu.Unlock()
				for _, f := range []struct {
					ext  string
					want *streamWant
				}{{"yaml", &v.Yaml}, {"toml", &v.Toml}} {
					if !f.want.Model {
						continue
					}
					for _, crlf := range []bool{false, true} {
						text := renderStream(v.Lines, f.ext, crlf)
						ok, docs, msg := readStream(r, f.ext, text)
						atomic.AddInt64(&compared, 1)
						why := ""
						if ok != f.want.OK {
							why = fmt.Sprintf("specification ok=%v, Parser ok=%v (%s)", f.want.OK, ok, trunc(msg, 120))
						} else if ok && strings.Join(docs, " | ") != strings.Join(wantDocs(f.want, f.ext), " | ") {
							why = fmt.Sprintf("the Parser holds the documents [%s], the specification reads [%s]", strings.Join(docs, " | "), strings.Join(wantDocs(f.want, f.ext), " | "))
						}
						if why != "" {
							mu.Lock()
							r.Violate("document structure of a layer file ("+f.ext+", CRLF="+fmt.Sprint(crlf)+"): "+why,
								map[string]any{"kind": "stream", "ext": f.ext, "crlf": crlf, "text": text, "vector": json.RawMessage(append([]byte{}, js...))})
							mu.Unlock()
						}
					}
				}
				mu.Lock()
				st.Replayed++
				if st.Replayed <= 1 {
					r.Sample(map[string]any{"stream_case": json.RawMessage(append([]byte{}, js...))})
				}
				mu.Unlock()
			})
			if err != nil {
				Fatal("MC_Stream: %v", err)
			}
			if res.InvariantBad {
				Fatal("MC_Stream: the specification violates its own law: %s", res.Output)
			}
			mu.Lock()
			st.States += res.Generated
			st.Distinct += res.Distinct
			st.Cmd = res.Cmd
			mu.Unlock()
		}(sh)
	}
	wg.Wait()
	if st.Replayed < 100 {
		Fatal("MC_Stream produced only %d vectors", st.Replayed)
	}
	r.Cov["stream_sequences"] = st.Replayed
	r.Cov["stream_texts_read_by_the_parser"] = atomic.LoadInt64(&compared)
	r.Cov["stream_max_lines"] = maxLines
	return st
}
