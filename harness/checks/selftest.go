package checks

import (
	"bytes"
	"encoding/json"
	"fmt"
	"os"
	"path/filepath"

	"bklverif/gen"
)

// Selftest demonstrates that the specification is bound to the code and not
// merely consistent with itself: recorded traces are accepted as they are,
// and rejected - at the right event - once a single recorded field is
// corrupted or a single event is removed (the failure modes "a spec nothing
// binds to the code" and "a trace spec that constrains only length").
func Selftest(r *Run) {
	g := gen.New(r.Seed + 4242)
	var sessions []Sess
	for i := 0; len(sessions) < 60; i++ {
		s := chainSession(g, i)
		if len(s.Lines) >= 6 { // at least two accepted layers
			sessions = append(sessions, s)
		}
	}
	res := r.Validate("selftest-clean", sessions, nil)
	report := map[string]any{"clean_sessions": len(sessions), "clean_rejected": len(res.Bad)}
	fail := false
	if len(res.Bad) != 0 {
		fmt.Println("selftest: clean traces were rejected")
		fail = true
	}
	// (a) corrupt one recorded field: the merged state logged after the second layer
	corrupt := make([]Sess, len(sessions))
	for i, s := range sessions {
		corrupt[i] = Sess{Lines: append([][]byte{}, s.Lines...)}
	}
	victim := 7
	idx := -1
	for j, l := range corrupt[victim].Lines {
		if bytes.Contains(l, []byte(`"ev":"Documents"`)) {
			idx = j
		}
	}
	var ev map[string]any
	json.Unmarshal(corrupt[victim].Lines[idx], &ev)
	docs := ev["docs"].([]any)
	docs[0].(map[string]any)["data"] = []any{"s", "corrupted by the selftest"}
	corrupt[victim].Lines[idx] = J(ev)
	res = r.Validate("selftest-corrupt", corrupt, nil)
	okA := len(res.Bad) == 1 && res.Bad[0].Session == victim && res.Bad[0].Event == idx
	report["corrupted_field_rejected_at_the_event"] = okA
	if !okA {
		fmt.Printf("selftest: corrupted field not rejected where expected: %+v\n", res.Bad)
		fail = true
	}
	// (b) remove one event: the first layer's MergeDocument of another session
	dropped := make([]Sess, len(sessions))
	for i, s := range sessions {
		dropped[i] = Sess{Lines: append([][]byte{}, s.Lines...)}
	}
	victim = 11
	cut := -1
	n := 0
	for j, l := range dropped[victim].Lines {
		if bytes.Contains(l, []byte(`"ev":"MergeDocument"`)) {
			n++
			if n == 2 {
				cut = j
			}
		}
	}
	dropped[victim].Lines = append(append([][]byte{}, dropped[victim].Lines[:cut]...), dropped[victim].Lines[cut+1:]...)
	res = r.Validate("selftest-dropped", dropped, nil)
	okB := len(res.Bad) >= 1 && res.Bad[0].Session == victim
	for _, b := range res.Bad {
		if b.Session != victim {
			okB = false
		}
	}
	report["removed_event_rejected"] = okB
	if !okB {
		fmt.Printf("selftest: removed event not rejected where expected: %+v\n", res.Bad)
		fail = true
	}
	b, _ := json.MarshalIndent(report, "", " ")
	os.MkdirAll(filepath.Join(Verif, "out"), 0o755)
	os.WriteFile(filepath.Join(Verif, "out", "selftest.json"), b, 0o644)
	fmt.Printf("selftest: %s\n", b)
	os.RemoveAll(r.Dir)
	if fail {
		os.Exit(1)
	}
	os.Exit(0)
}
