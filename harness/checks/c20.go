package checks

import (
	"crypto/sha1"
	"encoding/json"
	"fmt"
	"os"
	"path/filepath"
	"strings"
	"sync"
	"sync/atomic"
	"time"

	"bklverif/fsx"
	"bklverif/gen"
	"bklverif/indep"
	"bklverif/tlc"
	"bklverif/tv"
)

const probeScript = `#!/bin/sh
# dumps the argument vector (and the content of every argument that is a file)
i=0
for a in "$@"; do
  printf '%s' "$a" > "$PROBE_OUT/arg.$i"
  if [ -f "$a" ]; then cp "$a" "$PROBE_OUT/file.$i"; fi
  i=$((i+1))
done
echo "$i" > "$PROBE_OUT/count"
`

var probeNameSeq int64
var probeOnce sync.Once
var probePath string

func sharedProbe(r *Run) string {
	probeOnce.Do(func() {
		probePath = filepath.Join(r.Dir, "probe.sh")
		if err := os.WriteFile(probePath, []byte(probeScript), 0o755); err != nil {
			Fatal("probe script: %v", err)
		}
	})
	return probePath
}

type wrapObs struct {
	Exec bool
	Argv []map[string]any
	Res  fsx.RunResult
}

// runWrapper materialises fs, runs the real wrapper (bklb symlinked as
// probeb, or kubectl-bkl with a kubectl probe) and observes what the wrapped
// program received.
func runWrapper(r *Run, fs map[string]fsx.Entry, args []string, kubectl bool) (*wrapObs, error) {
	base := filepath.Join(r.Dir, fmt.Sprintf("wrap%d", atomic.AddInt64(&scratchSeq, 1)))
	defer os.RemoveAll(base)
	if err := fsx.Materialize(base, fs); err != nil {
		return nil, err
	}
	cwd := filepath.Join(base, "w")
	bin := filepath.Join(base, "bin")
	out := filepath.Join(base, "probe-out")
	tmp := filepath.Join(base, "tmp")
	for _, d := range []string{cwd, bin, out, tmp} {
		os.MkdirAll(d, 0o755)
	}
	// non-layer files get some content
	for p, e := range fs {
		if e.Kind == "other" {
			os.WriteFile(filepath.Join(base, p), []byte("not a layer: "+p+"\n"), 0o644)
		}
	}
	// The probe script is written ONCE per run, before any child process exists,
	// and only linked into each scenario: writing an executable in a process that
	// forks concurrently lets another child inherit the write descriptor, and the
	// exec of the script then fails with ETXTBSY ("text file busy").
	probe := sharedProbe(r)
	var argv0 string
	if kubectl {
		if err := os.Symlink(probe, filepath.Join(bin, "kubectl")); err != nil {
			return nil, err
		}
		argv0 = filepath.Join(binDir(), "kubectl-bkl")
	} else {
		// the wrapped program's name is the wrapper's own name without the trailing "b";
		// names with dots and digits are ordinary program names (tool.sh, python3.11, web.v2)
		names := []string{"probe", "probe", "probe.sh", "probe3.11", "web.v2", "a.b"}
		pn := names[int(atomic.AddInt64(&probeNameSeq, 1))%len(names)]
		if err := os.Symlink(probe, filepath.Join(bin, pn)); err != nil {
			return nil, err
		}
		argv0 = filepath.Join(bin, pn+"b")
		if err := os.Symlink(filepath.Join(binDir(), "bklb"), argv0); err != nil {
			return nil, err
		}
	}
	env := map[string]string{"PATH": bin + ":" + os.Getenv("PATH"), "PROBE_OUT": out, "TMPDIR": tmp}
	res := fsx.Run(cwd, append([]string{argv0}, args...), env, nil, 20*time.Second, false)
	obs := &wrapObs{Res: res}
	cnt, err := os.ReadFile(filepath.Join(out, "count"))
	if err != nil {
		return obs, nil // the wrapped program was not run
	}
	obs.Exec = true
	var n int
	fmt.Sscan(string(cnt), &n)
	for i := 0; i < n; i++ {
		a, _ := os.ReadFile(filepath.Join(out, fmt.Sprintf("arg.%d", i)))
		arg := string(a)
		entry := map[string]any{"kind": "same", "value": arg}
		if i < len(args) && arg != args[i] {
			// substituted: the wrapped program got another path
			entry = map[string]any{"kind": "file", "value": arg, "decoded": false, "docs": []any{},
				"nameKeepsExt": strings.HasSuffix(arg, "."+filepath.Base(args[i])) || strings.HasSuffix(arg, filepath.Base(args[i]))}
			if content, err := os.ReadFile(filepath.Join(out, fmt.Sprintf("file.%d", i))); err == nil {
				ext := fsx.Ext(args[i])
				docs, ok, _, derr := indep.Decode(ext, string(content))
				if derr != nil {
					return nil, derr
				}
				if ok {
					entry["decoded"] = true
					entry["docs"] = docs
				}
				entry["content"] = trunc(string(content), 300)
			}
		}
		obs.Argv = append(obs.Argv, entry)
	}
	return obs, nil
}

func wrapEvent(fs map[string]fsx.Entry, args []string, obs *wrapObs, via string) []byte {
	efs := map[string]any{}
	for p, e := range fs {
		switch e.Kind {
		case "file":
			ds := make([]any, len(e.Docs))
			for i, d := range e.Docs {
				ds[i] = d
			}
			efs[p] = map[string]any{"kind": "file", "docs": ds}
		case "symlink":
			efs[p] = map[string]any{"kind": "symlink", "target": e.Target}
		default:
			efs[p] = map[string]any{"kind": "other"}
		}
	}
	argv := make([]any, len(obs.Argv))
	for i, a := range obs.Argv {
		argv[i] = a
	}
	return J(map[string]any{"ev": "Wrap", "fs": efs, "cwd": "/w", "args": args, "exec": obs.Exec, "argv": argv,
		"exit": obs.Res.Exit, "via": via, "stderr": trunc(string(obs.Res.Stderr), 300)})
}

var wrapFs = map[string]fsx.Entry{
	"/w/service.yaml":      {Kind: "file", Docs: []tv.T{tv.FromGo(map[string]any{"name": "svc", "port": 80})}},
	"/w/service.test.toml": {Kind: "file", Docs: []tv.T{tv.FromGo(map[string]any{"port": 8080, "debug": true})}},
	"/w/broken.yaml":       {Kind: "file", Docs: []tv.T{tv.FromGo(map[string]any{"need": "$required"})}},
	"/w/multi.json":        {Kind: "file", Docs: []tv.T{tv.FromGo(map[string]any{"a": 1}), tv.FromGo(map[string]any{"b": []any{"x", ""}})}},
	"/w/sub/service.yaml":  {Kind: "file", Docs: []tv.T{tv.FromGo(map[string]any{"name": "sub", "zone": 2})}},
	"/w/over.yaml":         {Kind: "file", Docs: []tv.T{tv.FromGo(map[string]any{"$parent": "service", "extra": 1})}},
	"/w/orphan.child.yaml": {Kind: "file", Docs: []tv.T{tv.FromGo(map[string]any{"c": 1})}},
	"/w/kind.yaml":         {Kind: "file", Docs: []tv.T{tv.FromGo(map[string]any{"m": map[string]any{"a": 1}})}},
	"/w/kind.over.yaml":    {Kind: "file", Docs: []tv.T{tv.FromGo(map[string]any{"m": []any{1}})}},
	"/w/notes.txt":         {Kind: "other"},
	"/w/conf.ini":          {Kind: "other"},
}

type wrapVector struct {
	Args []string `json:"args"`
	Exec bool     `json:"exec"`
	Argv []struct {
		Kind   string `json:"kind"`
		Format string `json:"format"`
		Outs   []any  `json:"outs"`
	} `json:"argv"`
}

func modelWrap(r *Run, maxArgs int) modelStats {
	nsh := 4
	var st modelStats
	var mu sync.Mutex
	seen := map[[20]byte]bool{}
	sem := make(chan struct{}, Cores())
	var wgRun, wg sync.WaitGroup
	for sh := 0; sh < nsh; sh++ {
		wg.Add(1)
		go func(sh int) {
			defer wg.Done()
			dir := filepath.Join(r.Dir, fmt.Sprintf("mc-wrap-%d", sh))
			cfg := fmt.Sprintf("SPECIFICATION Spec\nCONSTANTS\n CharOrder <- AsciiOrder\n LowerSet <- AsciiLower\n MaxFuel = 64\n MaxArgs = %d\n Shard = %d\n NShards = %d\nINVARIANT TypeOK\nCHECK_DEADLOCK FALSE\n", maxArgs, sh, nsh)
			res, err := tlc.RunModelCfg(dir, "MC_Wrap", cfg, 3, "4g", 60*time.Minute, func(js []byte) {
				h := sha1.Sum(js)
				mu.Lock()
				st.Vectors++
				dup := seen[h]
				seen[h] = true
				mu.Unlock()
				if dup {
					return
				}
				var v wrapVector
				if err := json.Unmarshal(js, &v); err != nil {
					Fatal("bad vector from TLC: %v: %.300s", err, js)
				}
				jsc := append([]byte{}, js...)
				wgRun.Add(1)
				sem <- struct{}{}
				go func() {
					defer wgRun.Done()
					defer func() { <-sem }()
					why := replayWrap(r, &v)
					mu.Lock()
					defer mu.Unlock()
					st.Replayed++
					if st.Replayed <= 2 {
						r.Sample(map[string]any{"wrapper_vector": json.RawMessage(jsc)})
					}
					if why != "" {
						r.Violate("argument vector from the bounded model: "+why, map[string]any{"kind": "wrapvector", "vector": json.RawMessage(jsc)})
					}
				}()
			})
			if err != nil {
				Fatal("MC_Wrap: %v", err)
			}
			if res.InvariantBad {
				Fatal("MC_Wrap: the specification violates its own law: %s", res.Output)
			}
			mu.Lock()
			st.States += res.Generated
			st.Distinct += res.Distinct
			st.Cmd = res.Cmd
			mu.Unlock()
		}(sh)
	}
	wg.Wait()
	wgRun.Wait()
	if st.Replayed < 100 {
		Fatal("MC_Wrap produced only %d vectors", st.Replayed)
	}
	return st
}

func replayWrap(r *Run, v *wrapVector) string {
	obs, err := runWrapper(r, wrapFs, v.Args, len(v.Args)%2 == 1)
	if err != nil {
		Fatal("wrapper replay: %v", err)
	}
	if obs.Res.TimedOut || obs.Res.Panicked {
		return "the wrapper crashed or hung: " + trunc(string(obs.Res.Stderr), 200)
	}
	if obs.Exec != v.Exec {
		return fmt.Sprintf("specification exec=%v, observed exec=%v (exit %d: %.150s)", v.Exec, obs.Exec, obs.Res.Exit, obs.Res.Stderr)
	}
	if !v.Exec {
		return ""
	}
	if len(obs.Argv) != len(v.Args) {
		return fmt.Sprintf("the wrapped program got %d arguments instead of %d", len(obs.Argv), len(v.Args))
	}
	for i, a := range obs.Argv {
		want := v.Argv[i]
		switch want.Kind {
		case "same":
			if a["kind"] != "same" || a["value"] != v.Args[i] {
				return fmt.Sprintf("argument %d (%q) should pass through untouched, the wrapped program got %q", i, v.Args[i], a["value"])
			}
		case "file":
			if a["kind"] != "file" {
				return fmt.Sprintf("argument %d (%q) names a bkl file but was not substituted", i, v.Args[i])
			}
			if a["decoded"] != true || !docsEqual(a["docs"].([]any), want.Outs) {
				return fmt.Sprintf("argument %d (%q): the substituted file does not hold the evaluated layers in that format: %v", i, v.Args[i], a["content"])
			}
			if a["nameKeepsExt"] != true {
				return fmt.Sprintf("argument %d (%q): substituted name %q does not keep the extension", i, v.Args[i], a["value"])
			}
		}
	}
	return ""
}

func C20(r *Run) {
	sharedProbe(r) // before the first child process is started
	st := modelWrap(r, r.Pick(2, 3))
	r.Logf("model: %d argument vectors replayed", st.Replayed)
	g := gen.New(r.Seed*899809363 + 20)
	n := r.Pick(400, 8000)
	var sessions []Sess
	var mu sync.Mutex
	var wg sync.WaitGroup
	sem := make(chan struct{}, Cores())
	for i := 0; i < n; i++ {
		// a random directory: a base layer, an upper layer in another format, a
		// failing layer, a two-document layer, non-bkl files
		fs := map[string]fsx.Entry{}
		exts := []string{"yaml", "json", "toml", "yml"}
		e1, e2, e3 := g.Pick(exts), g.Pick(exts), g.Pick([]string{"yaml", "json"})
		saveN := g.NullP
		g.NullP, g.ReqP = 0, 0
		fs["/w/app."+e1] = fsx.Entry{Kind: "file", Docs: []tv.T{tv.FromGo(map[string]any{"name": g.Pick(g.Strs), "n": g.Int(), "sub": map[string]any{"k": g.Float()}})}}
		fs["/w/app.dev."+e2] = fsx.Entry{Kind: "file", Docs: []tv.T{tv.FromGo(map[string]any{"extra": []any{g.Pick(g.Strs), g.N(5)}, "sub": map[string]any{"j": g.P(0.5)}})}}
		fs["/w/bad."+e3] = fsx.Entry{Kind: "file", Docs: []tv.T{tv.FromGo(map[string]any{"x": g.Pick([]string{"$required", "$bogus", "$merge:nope"})})}}
		fs["/w/two."+e3] = fsx.Entry{Kind: "file", Docs: []tv.T{tv.FromGo(map[string]any{"d": 1}), tv.FromGo(map[string]any{"d": []any{2, "x"}})}}
		fs["/w/readme.md"] = fsx.Entry{Kind: "other"}
		fs["/w/data.csv"] = fsx.Entry{Kind: "other"}
		fs["/w/sub/keep.txt"] = fsx.Entry{Kind: "other"} // so that sub/../x resolves for the kernel as it does lexically
		// the same base name in another directory, with other content
		// a plain name whose parent comes from a $parent directive
		fs["/w/over."+e3] = fsx.Entry{Kind: "file", Docs: []tv.T{tv.FromGo(map[string]any{"$parent": "app.dev", "over": g.N(9)})}}
		fs["/w/sub/app."+e1] = fsx.Entry{Kind: "file", Docs: []tv.T{tv.FromGo(map[string]any{"name": "inner", "where": g.N(9)})}}
		g.NullP = saveN
		pool := []string{"-v", "--context=prod", "--file=app." + e1, "apply", "-f", "readme.md", "data.csv", "app." + e1, "app.dev." + e2,
			"app.dev." + g.Pick([]string{"json", "yaml", "toml", "yml", "jsonl", "json-pretty"}), "app." + g.Pick(exts),
			"two." + g.Pick([]string{"json", "yaml", "yml", "jsonl"}), "nothere.yaml", "app.dev.ini", "--", "-", "app", ".yaml", "x=y.json",
			"./app." + e1, "sub/../app.dev." + e2, "sub/app." + e1, "sub/app." + e1, "over." + e3, "over." + g.Pick(exts)}
		if g.P(0.25) {
			pool = append(pool, "bad."+e3, "bad."+g.Pick([]string{"json", "yaml"}))
		}
		na := g.N(9)
		args := make([]string, na)
		for j := range args {
			args[j] = g.Pick(pool)
		}
		kube := g.P(0.3)
		wg.Add(1)
		sem <- struct{}{}
		go func() {
			defer wg.Done()
			defer func() { <-sem }()
			obs, err := runWrapper(r, fs, args, kube)
			if err == fsx.ErrUnrepresentable {
				return
			}
			if err != nil {
				Fatal("wrapper driver: %v", err)
			}
			via := "bklb"
			if kube {
				via = "kubectl-bkl"
			}
			ev := wrapEvent(fs, args, obs, via)
			mu.Lock()
			sessions = append(sessions, Sess{Lines: [][]byte{ev}})
			mu.Unlock()
		}()
	}
	wg.Wait()
	finishEvalFamily(r, "C20", st, sessions,
		[]string{"OnlyBklFilesChange", "UntouchedByteForByte", "FailingFileMeansNoExec"},
		"model: every argument vector of length <= MaxArgs over 19 argument kinds (flags, --opt=value, words, non-bkl files, layer files, virtual names of four formats, unsupported extensions, failing and missing layers, ./ spellings, the same base name in two directories) run through the real bklb (as probeb) and kubectl-bkl with a probe program on PATH; driver: random directories (layers in mixed formats) and random vectors of 0-8 arguments over 21+ kinds; substituted files are decoded by the independent decoder of the argument's extension and compared with the specification's evaluation")
}
