package checks

import (
	"fmt"
	"os"
	"path/filepath"
	"runtime/debug"
	"strings"
	"sync"
	"sync/atomic"

	"github.com/gopatchy/bkl"

	"bklverif/fsx"
	"bklverif/gen"
	"bklverif/real"
	"bklverif/tv"
)

const rootDir = "/w/root"

func confinementLayout(g *gen.G) *layout {
	l := &layout{Fs: map[string]fsx.Entry{}}
	file := func(p, name string, extra map[string]any) {
		l.Fs[p] = fsx.Entry{Kind: "file", Docs: []tv.T{layerDoc(name, extra)}}
	}
	file(rootDir+"/a.yaml", "a", nil)
	file(rootDir+"/sub/s.yaml", "s", nil)
	file(rootDir+"/sub/s.t.yaml", "s.t", nil)
	file("/w/out.yaml", "DECOY-out", nil)
	file("/w/out.b.yaml", "DECOY-out.b", nil)
	file("/w/other/o.yaml", "DECOY-o", nil)
	file("/o/far.yaml", "DECOY-far", nil) // outside the working directory too (the root may BE the working directory)
	var extra map[string]any
	if g.P(0.7) {
		extra = map[string]any{"$parent": g.Pick([]string{"../out", "../other/o", "sub/s", "sub/../a", "/w/out", "../out.*", "a", "sub/../../out", "l", "d/s", "d/o", "../../o/far", "/o/far"})}
	}
	if g.P(0.15) {
		// a $parent name with two matches: a real layer and a link (another extension) that
		// leaves the root - to an existing decoy, to nothing, or to a directory. Whether the
		// outside target EXISTS must not matter either.
		file(rootDir+"/p.yaml", "p", nil)
		file("/w/dec.json", "DECOY-json", nil) // its own stem: one file per layer name
		l.Fs[rootDir+"/p.json"] = fsx.Entry{Kind: "symlink", Target: g.Pick([]string{"../dec.json", "../nothere.json", "../other", "/w/dec.json"})}
		extra = map[string]any{"$parent": g.Pick([]string{"p", "p", "p.*", "*"})}
	}
	file(rootDir+"/a.b.yaml", "a.b", extra)
	if g.P(0.6) {
		l.Fs[rootDir+"/l.yaml"] = fsx.Entry{Kind: "symlink", Target: g.Pick([]string{"a.yaml", "sub/s.yaml", "../out.yaml", "/w/out.yaml", "/w/root/a.yaml", "sub/../../out.yaml", "m.yaml", "a.b.yaml", "../out.b.yaml", "../../o/far.yaml", "/o/far.yaml"})}
		if l.Fs[rootDir+"/l.yaml"].Target == "m.yaml" {
			l.Fs[rootDir+"/m.yaml"] = fsx.Entry{Kind: "symlink", Target: g.Pick([]string{"a.yaml", "../out.yaml", "sub/s.t.yaml"})}
		}
	}
	if g.P(0.5) {
		l.Fs[rootDir+"/d"] = fsx.Entry{Kind: "symlink", Target: g.Pick([]string{"sub", "..", "../other", "/w/other", "/w/root/sub", "."})}
	}
	l.Inputs = []string{g.Pick([]string{"root/a.b.yaml", "root/a.b.yaml", "root/l.yaml", "root/d/s.yaml", "root/d/o.yaml", "root/sub/s.t.yaml", "out.b.yaml", "root/../out.yaml", "root/d/s.t.yaml", "root/a.yaml"})}
	if _, ok := l.Fs[rootDir+"/l.yaml"]; !ok && l.Inputs[0] == "root/l.yaml" {
		l.Inputs[0] = "root/a.b.yaml"
	}
	if _, ok := l.Fs[rootDir+"/d"]; !ok && len(l.Inputs[0]) > 6 && l.Inputs[0][:7] == "root/d/" {
		l.Inputs[0] = "root/a.b.yaml"
	}
	l.Root = g.Pick([]string{rootDir, rootDir, rootDir, rootDir + "/sub", "/w", "/w", "/"})
	return l
}

var libMu sync.Mutex
var osRootPanics int64

// libraryRun performs nested SetRoot calls and a MergeFileLayers through the
// library, in-process (the working directory is the layout's /w).
func libraryRun(r *Run, l *layout, roots []string) ([]byte, bool) {
	libMu.Lock()
	defer libMu.Unlock()
	base := filepath.Join(r.Dir, fmt.Sprintf("lib%d", atomic.AddInt64(&scratchSeq, 1)))
	defer os.RemoveAll(base)
	if err := fsx.Materialize(base, l.Fs); err != nil {
		if err == fsx.ErrUnrepresentable {
			return nil, false
		}
		Fatal("materialize: %v", err)
	}
	cwd, _ := os.Getwd()
	defer os.Chdir(cwd)
	if err := os.Chdir(filepath.Join(base, "w")); err != nil {
		Fatal("chdir: %v", err)
	}
	p, err := bkl.New()
	if err != nil {
		Fatal("bkl.New: %v", err)
	}
	ok := true
	var outs []any
	panicked := false
	setRoot := func(rel string) (err error) {
		// go1.24.0's os.Root panics (index out of range in doInRoot) on
		// OpenRoot("..") instead of returning "path escapes"; it is reported
		// as a failed call (DESIGN.md section 7, observation)
		defer func() {
			if x := recover(); x != nil {
				if !strings.Contains(string(debug.Stack()), "os.doInRoot") {
					panic(x) // not the toolchain's defect: let it surface
				}
				panicked = true
				err = fmt.Errorf("panic: %v", x)
			}
		}()
		return p.SetRoot(rel)
	}
	for _, rt := range roots {
		rel, _ := filepath.Rel("/w", rt)
		if err := setRoot(rel); err != nil {
			ok = false
			break
		}
	}
	if panicked {
		// the toolchain failed, not bkl: the run says nothing about the property
		// (a directory link that resolves to the root itself, d -> "..", is inside
		// the root for the specification and for a repaired os.Root)
		atomic.AddInt64(&osRootPanics, 1)
		return nil, false
	}
	if ok {
		for _, in := range l.Inputs {
			rp, _, err := bkl.FileMatch(in)
			if err != nil {
				ok = false
				break
			}
			if err := p.MergeFileLayers(rp); err != nil {
				ok = false
				break
			}
		}
	}
	if ok {
		vs, err := p.OutputDocuments()
		if err != nil {
			ok = false
		} else {
			for _, v := range vs {
				outs = append(outs, tv.FromGo(v))
			}
		}
	}
	if outs == nil {
		outs = []any{}
	}
	fs := map[string]any{}
	for pth, e := range l.Fs {
		switch e.Kind {
		case "file":
			ds := make([]any, len(e.Docs))
			for i, d := range e.Docs {
				ds[i] = d
			}
			fs[pth] = map[string]any{"kind": "file", "docs": ds}
		case "symlink":
			fs[pth] = map[string]any{"kind": "symlink", "target": e.Target}
		}
	}
	_ = real.ErrClass
	return J(map[string]any{"ev": "Run", "fs": fs, "inputs": absInputs(l), "skip": false, "root": roots[len(roots)-1],
		"roots": roots, "ok": ok, "outs": outs, "via": "library"}), true
}

func C18(r *Run) {
	if _, err := os.Stat("/usr/bin/strace"); err != nil {
		Fatal("strace is not available")
	}
	st := modelFiles(r, "C18")
	r.Logf("model done")
	g := gen.New(r.Seed*2038074743 + 18)
	n := r.Pick(500, 12000)
	var sessions []Sess
	var mu sync.Mutex
	var wg sync.WaitGroup
	sem := make(chan struct{}, Cores())
	interference := int64(0)
	for i := 0; i < n; i++ {
		l := confinementLayout(g)
		wg.Add(1)
		sem <- struct{}{}
		go func(l *layout) {
			defer wg.Done()
			defer func() { <-sem }()
			sess, ok := runSession(r, l, true)
			if !ok {
				return
			}
			// non-interference: rewrite, then delete, the files outside the root
			ok0, outs0, _, res0, _ := runLayout(r, l, false, "")
			for _, mut := range []string{"rewrite", "delete"} {
				ok2, outs2, _, res2, _ := runLayout(r, l, false, mut)
				if ok2 != ok0 || (ok0 && !docsEqual(outs0, outs2)) {
					atomic.AddInt64(&interference, 1)
					mu.Lock()
					r.Violate(fmt.Sprintf("the result depends on files outside the root (%s them: exit %d -> %d)", mut, res0.Exit, res2.Exit),
						map[string]any{"kind": "layout", "layout": l, "stdout_before": string(res0.Stdout), "stdout_after": string(res2.Stdout)})
					mu.Unlock()
				}
			}
			mu.Lock()
			sessions = append(sessions, sess)
			mu.Unlock()
		}(l)
	}
	wg.Wait()
	r.Logf("cli driver done")
	// library: nested SetRoot calls, also through directory links
	nl := r.Pick(150, 3000)
	for i := 0; i < nl; i++ {
		l := confinementLayout(g)
		l.Root = "/"
		first := g.Pick([]string{rootDir, "/w", rootDir})
		second := g.Pick([]string{rootDir + "/sub", rootDir + "/d", rootDir, rootDir + "/..", "/w/other", rootDir + "/sub/..", rootDir + "/d/."})
		roots := []string{first, filepath.Clean(second)}
		if second == rootDir+"/d" || second == rootDir+"/d/." {
			roots[1] = rootDir + "/d"
			if _, ok := l.Fs[rootDir+"/d"]; !ok {
				l.Fs[rootDir+"/d"] = fsx.Entry{Kind: "symlink", Target: g.Pick([]string{"sub", "..", "../other", "/w/other"})}
			}
			l.Inputs = []string{g.Pick([]string{"root/d/s.yaml", "root/d/o.yaml", "root/d/out.yaml", "root/d/s.t.yaml"})}
		}
		if g.P(0.2) {
			roots = roots[:1]
		}
		if ev, ok := libraryRun(r, l, roots); ok {
			sessions = append(sessions, Sess{Lines: [][]byte{ev}})
		}
	}
	r.Cov["non_interference_runs"] = 2 * n
	r.Cov["library_runs_skipped_os_root_panic_go1_24_0"] = int(atomic.LoadInt64(&osRootPanics))
	finishEvalFamily(r, "C18", st, sessions,
		[]string{"Confined (reads inside the root)", "EscapesFail", "NonInterference (outside files removed)", "RootSpellings"},
		"model: 33 layouts (escaping $parent values, inputs outside, relative / absolute / chained / directory links, root spellings), each run under strace and twice more with every outside file rewritten / deleted; driver: random layouts around a root with decoys (11 $parent values, 9 link targets, 6 directory links, 10 inputs, 4 roots) under strace plus rewrite/delete reruns, and library runs with nested SetRoot calls (also through directory links)")
}
