package checks

import (
	"fmt"
	"sort"
	"strings"
	"unicode"
	"unicode/utf8"

	"bklverif/gen"
	"bklverif/real"
	"bklverif/tv"
)

// evalEvent evaluates a stream with the real library and builds the Eval
// event; expect (nil = none, "error", or []any of tagged trees) and laws are
// the law fields checked by TLC.
func evalEvent(docs []any, env map[string]string, expect any, laws []string, note string) []byte {
	tdocs := make([]tv.T, len(docs))
	edocs := make([]any, len(docs))
	for i, d := range docs {
		tdocs[i] = tv.FromGo(d)
		edocs[i] = map[string]any{"id": fmt.Sprintf("d%d", i), "data": tdocs[i]}
	}
	o, outs := real.EvalStream(tdocs, env)
	if outs == nil {
		outs = []any{}
	}
	ev := map[string]any{"ev": "Eval", "docs": edocs, "env": env, "ok": o.OK, "err": o.Class, "outs": outs}
	if o.Panic {
		ev["panic"] = o.Msg
	}
	if expect == "error" {
		ev["expecterr"] = true
	} else if expect != nil {
		ev["expect"] = expect
	}
	if len(laws) > 0 {
		ev["laws"] = laws
	}
	if note != "" {
		ev["note"] = note
	}
	return J(ev)
}

// withKF marks an event as carrying the trigger of a listed known finding.
func withKF(ev []byte, kf string) []byte {
	return append(append(append([]byte{}, ev[:len(ev)-1]...), []byte(`,"kf":"`+kf+`"`)...), '}')
}

func tagged(vs ...any) []any {
	out := make([]any, len(vs))
	for i, v := range vs {
		out[i] = tv.FromGo(v)
	}
	return out
}

// finishEvalFamily validates sessions and fills the evidence.
func finishEvalFamily(r *Run, fam string, st modelStats, sessions []Sess, theorems []string, rule string) {
	r.Logf("model %s: %d cases replayed; %d driver sessions", fam, st.Replayed, len(sessions))
	res := r.Validate(fam, sessions, nil)
	known := KnownFor(r.ID)
	for _, b := range res.Bad {
		evs := Lines(sessions[b.Session])
		if m, ok := evs[b.Event].(map[string]any); ok {
			if kf, _ := m["kf"].(string); kf != "" {
				if _, listed := known[kf]; listed {
					r.Known[kf]++
					continue
				}
			}
		}
		r.Violate(fmt.Sprintf("recorded evaluation: %s", b.Why),
			map[string]any{"kind": "trace", "events": evs, "event": b.Event})
	}
	distinct := map[string]bool{}
	for _, s := range sessions {
		distinct[string(s.Lines[len(s.Lines)-1])] = true
	}
	if len(sessions) > 0 {
		r.Sample(map[string]any{"driver_event": Lines(sessions[len(sessions)/2])})
	}
	r.modelCov(st, theorems)
	r.Cov["traces_validated_against_impl"] = len(sessions)
	r.Cov["trace_events"] = res.Events
	r.Cov["trace_events_compared"] = res.Checked
	r.Cov["trace_events_unmodelled"] = res.Undef
	r.Cov["evaluations"] = len(sessions) + int(st.Replayed)
	r.Cov["distinct_nontrivial"] = len(distinct)
	r.Cov["rule"] = rule
	r.Cov["checker_cmd"] = first(res.Cmds)
}

// ---------------------------------------------------------------------------
// C06

var dollarAlphabet = []string{"$", "$", "a", "b", "{", "}", ":", ".", "\"", " ", "é", "A", "1", "-", "€", "日", "→", "ß", "Ω"}
var dollarTokens = []string{"$merge:x", `$"{a}"`, "$required", "$delete", "$match", "$output", "$env:HOME", "$repeat",
	"$value", "$encode", "$replace", "$parent", "$FOO", "${X}", "$(cmd)", "$$", "$1", "$replace:a", "$é", "$Éa", "a$b$$c", "$", `$"`, "x$",
	// "$" followed by characters of two and three bytes in UTF-8, lower-case and not
	"$€100", "$日本", "$→ next", "$ßeta", "$Ωmega", "$ω", "$中", "$ж", "$Ж"}

func dollarString(g *gen.G) string {
	if g.P(0.35) {
		return g.Pick(dollarTokens)
	}
	n := g.N(7)
	var sb strings.Builder
	for i := 0; i < n; i++ {
		sb.WriteString(g.Pick(dollarAlphabet))
	}
	return sb.String()
}

func directiveShaped(s string) bool {
	if len(s) < 2 || s[0] != '$' {
		return false
	}
	r, _ := utf8.DecodeRuneInString(s[1:])
	return unicode.IsLower(r)
}

func plainStr(s string) bool {
	if directiveShaped(s) || s == "$required" {
		return false
	}
	if strings.HasPrefix(s, `$"`) && strings.HasSuffix(s, `"`) {
		return false
	}
	return !strings.Contains(s, "$$")
}

// dollarTree builds a tree whose strings and keys come from next().
func dollarTree(g *gen.G, d int, next func() string, nulls bool) any {
	if d <= 0 || g.P(0.3) {
		switch g.N(6) {
		case 0:
			return g.Int()
		case 1:
			if nulls {
				return nil
			}
			return g.P(0.5)
		default:
			return next()
		}
	}
	if g.P(0.55) {
		m := map[string]any{}
		for i := g.N(4); i > 0; i-- {
			m[next()] = dollarTree(g, d-1, next, nulls)
		}
		return m
	}
	l := []any{}
	for i := g.N(4); i > 0; i-- {
		l = append(l, dollarTree(g, d-1, next, nulls))
	}
	return l
}

func mapStrings(v any, f func(string) string) any {
	switch x := v.(type) {
	case map[string]any:
		m := map[string]any{}
		for k, e := range x {
			m[f(k)] = mapStrings(e, f)
		}
		return m
	case []any:
		l := make([]any, len(x))
		for i, e := range x {
			l[i] = mapStrings(e, f)
		}
		return l
	case string:
		return f(x)
	}
	return v
}

func dropNulls(v any) any {
	switch x := v.(type) {
	case map[string]any:
		m := map[string]any{}
		for k, e := range x {
			if e != nil {
				m[k] = dropNulls(e)
			}
		}
		return m
	case []any:
		l := []any{}
		for _, e := range x {
			if e != nil {
				l = append(l, dropNulls(e))
			}
		}
		return l
	}
	return v
}

func overlay(b, d any) any {
	bm, ok1 := b.(map[string]any)
	dm, ok2 := d.(map[string]any)
	if ok1 && ok2 {
		m := map[string]any{}
		for k, e := range bm {
			m[k] = e
		}
		for k, e := range dm {
			if be, ok := bm[k]; ok {
				m[k] = overlay(be, e)
			} else {
				m[k] = e
			}
		}
		return m
	}
	bl, ok1 := b.([]any)
	dl, ok2 := d.([]any)
	if ok1 && ok2 {
		return append(append([]any{}, bl...), dl...)
	}
	return d
}

func doubleDollar(s string) string { return strings.ReplaceAll(s, "$", "$$") }

func C06(r *Run) {
	st := modelEval(r, "C06", r.Pick(2, 3))
	g := gen.New(r.Seed*2750159 + 6)
	n := r.Pick(3000, 60000)
	var sessions []Sess
	for i := 0; i < n; i++ {
		switch i % 3 {
		case 0: // plain data is the identity (nulls dropped)
			next := func() string {
				for {
					if s := dollarString(g); plainStr(s) {
						return s
					}
				}
			}
			d := dollarTree(g, 3, next, true)
			var expect []any
			if d != nil {
				expect = tagged(dropNulls(d))
			} else {
				expect = []any{}
			}
			sessions = append(sessions, Sess{Lines: [][]byte{evalEvent([]any{d}, nil, expect, nil, "plain")}})
		case 1: // doubling every $ yields the original
			d := dollarTree(g, 3, func() string { return dollarString(g) }, false)
			e := mapStrings(d, doubleDollar)
			sessions = append(sessions, Sess{Lines: [][]byte{evalEvent([]any{e}, nil, tagged(d), nil, "escaped")}})
		default: // the same as the child of a layering
			base := map[string]any{"k": "old", "q": 7, "m": map[string]any{"in": 1}, "l": []any{"b0"}}
			d := map[string]any{}
			for j := 1 + g.N(3); j > 0; j-- {
				k := g.Pick([]string{"k", "m", "l", "new", dollarString(g)})
				switch k {
				case "l":
					d[k] = []any{dollarString(g)}
				case "m":
					d[k] = map[string]any{dollarString(g): dollarString(g)}
				default:
					d[k] = dollarTree(g, 2, func() string { return dollarString(g) }, false)
				}
			}
			if s, ok := d["k"].(string); ok && s == "old" {
				d["k"] = "older"
			}
			e := mapStrings(d, doubleDollar)
			s := real.NewSess()
			tb, te := tv.FromGo(base), tv.FromGo(e)
			lines := [][]byte{J(map[string]any{"ev": "Reset"})}
			o := s.MergeDocument("L0", nil, tb)
			lines = append(lines, J(map[string]any{"ev": "MergeDocument", "patch": map[string]any{"id": "L0", "parents": []string{}, "data": tb}, "ok": o.OK, "docs": s.Docs()}))
			o = s.MergeDocument("L1", []string{"L0"}, te)
			lines = append(lines, J(map[string]any{"ev": "MergeDocument", "patch": map[string]any{"id": "L1", "parents": []string{"L0"}, "data": te}, "ok": o.OK, "docs": s.Docs()}))
			if o.OK {
				oo, outs := s.OutputDocuments()
				if outs == nil {
					outs = []any{}
				}
				lines = append(lines, J(map[string]any{"ev": "Output", "format": "docs", "ok": oo.OK, "outs": outs,
					"expect": tagged(overlay(base, d)), "note": "layered"}))
			}
			sessions = append(sessions, Sess{Lines: lines})
		}
	}
	finishEvalFamily(r, "C06", st, sessions, []string{"PlainIdentity", "EscapeLaw", "EscapeLawLayered"},
		"model: every string of length <= Bound over {$ a { } : . \"} plus 31 directive tokens at 11 positions (value/key, nested, in lists), plain / escaped / layered; driver: random trees over a $-rich alphabet with the law's expected output computed independently (drop nulls / original / overlay)")
}

// ---------------------------------------------------------------------------
// C07

func C07(r *Run) {
	st := modelEval(r, "C07", r.Pick(1, 2))
	g := gen.New(r.Seed*86028121 + 7)
	g.ReqP = 0.15
	g.Strs = append(g.Strs, "$required", "$delete", "$bogus", "$match", "$replace", "$output", "$Upper", "$1", "$merge:nope", "$value")
	g.Keys = append(g.Keys, "$bogus", "$match", "$value", "$delete")
	n := r.Pick(2500, 50000)
	var sessions []Sess
	gSmall := g
	gBig := gen.New(r.Seed*86028121 + 100007).Big()
	gBig.ReqP = 0.1
	gBig.Strs = append(gBig.Strs, "$required", "$delete", "$bogus", "$match", "$replace", "$output", "$Upper", "$1", "$merge:nope", "$value")
	gBig.Keys = append(gBig.Keys, "$bogus", "$match", "$value", "$delete")
	for i := 0; i < n; i++ {
		g = gSmall
		if i%12 == 11 {
			g = gBig // the large regime
		}
		s := real.NewSess()
		lines := [][]byte{J(map[string]any{"ev": "Reset"})}
		var cur any = g.Map(3)
		if m, ok := cur.(map[string]any); ok {
			delete(m, "$match")
			if g.P(0.2) {
				m["hid"] = map[string]any{"$output": false, "x": "$required", "y": g.Scalar()}
			}
			if g.P(0.15) {
				// a selected subtree below an excluded one is emitted: its markers count
				m["hid2"] = map[string]any{"$output": false, "in": map[string]any{"$output": true, "x": g.Pick(g.Strs), "y": g.Scalar()}}
			}
			if g.P(0.15) {
				m["enc"] = map[string]any{"$encode": "join:,", "$value": []any{"a", g.Scalar()}}
			}
		}
		prev := []string{}
		ok := true
		for j := 0; j <= 1+g.N(2) && ok; j++ {
			var data any
			if j == 0 {
				data = cur
			} else {
				data = g.Patch(cur, 2)
				if m, isMap := data.(map[string]any); isMap {
					delete(m, "$match")
				}
			}
			id := fmt.Sprintf("s%d.L%d", i, j)
			t := tv.FromGo(data)
			o := s.MergeDocument(id, prev, t)
			lines = append(lines, J(map[string]any{"ev": "MergeDocument", "patch": map[string]any{"id": id, "parents": prev, "data": t}, "ok": o.OK, "docs": s.Docs()}))
			ok = o.OK
			if ok {
				prev = []string{id}
				cur = s.P.Documents()[0].Data
			}
		}
		if ok {
			oo, outs := s.OutputDocuments()
			if outs == nil {
				outs = []any{}
			}
			lines = append(lines, J(map[string]any{"ev": "Output", "format": "docs", "ok": oo.OK, "outs": outs, "laws": []string{"nomarker"}}))
		}
		sessions = append(sessions, Sess{Lines: lines})
	}
	finishEvalFamily(r, "C07", st, sessions, []string{"NoMarker"},
		"model: 15 tokens x 12 lower-layer positions (value, key, list entry, under $output:false, inside $encode/$value, root list) x 14 upper layers; driver: random 2-3 layer chains with $required and directive-shaped strings/keys injected, NoMarker evaluated by TLC on the observed outputs")
}

// ---------------------------------------------------------------------------
// C10

func C10(r *Run) {
	st := modelEval(r, "C10", r.Pick(1, 2))
	g := gen.New(r.Seed*32452843 + 10)
	n := r.Pick(2500, 50000)
	var sessions []Sess
	for i := 0; i < n; i++ {
		sessions = append(sessions, refSession(g))
	}
	for i := 0; i < 10; i++ {
		v := []any{"str", 5, []any{1}}[i%3]
		d := map[string]any{"s": v, "h": map[string]any{"a": map[string]any{"$merge": "s"}, "b": "$replace:h.a"}}
		want := map[string]any{"s": v, "h": map[string]any{"a": v, "b": v}}
		sessions = append(sessions, Sess{Lines: [][]byte{withKF(evalEvent([]any{d}, nil, tagged(want), nil, "chain through map-form $merge of a non-map"), "c10-host-nonmap")}})
	}
	finishEvalFamily(r, "C10", st, sessions, []string{"InlineLaw", "TargetUnchanged", "ChainLaw", "DanglingIsError", "CrossDocLaw"},
		"model: 22 reference forms x {reference, written inline, chained through a second reference} + 11 failing forms + cross-document forms in a 3-document stream; driver: random documents, a random target and a non-overlapping host in map/list/string/cross-document form, evaluated both as a reference and written inline (expected output = the inline evaluation)")
}

// refSession builds a random document, picks a target subtree and a host
// position, writes the reference in a random form and, next to it, the same
// document with the referenced value written inline; the inline document's
// real outputs are the law's expectation for the reference document.
func refSession(g *gen.G) Sess {
	saveReq := g.ReqP
	g.ReqP = 0
	defer func() { g.ReqP = saveReq }()
	keys := []string{"ta", "tb", "tc", "k.dot", "hid"}
	kx, ky, kz := "x", "y", "z"
	if g.P(0.3) {
		// keys outside ASCII (multi-byte in UTF-8): paths are split and looked up by character
		keys = []string{"база", "café", "設定", "k.dot", "hid"}
		kx, ky, kz = "größe", "clé", "既定"
	}
	root := map[string]any{}
	for _, k := range keys[:3] {
		switch g.N(3) {
		case 0:
			root[k] = map[string]any{kx: g.N(3), ky: map[string]any{kz: g.Pick([]string{"s", "t"}), "w": []any{g.N(3)}}}
		case 1:
			root[k] = []any{g.N(3), map[string]any{"a": g.N(2)}, "e"}
		default:
			root[k] = g.Pick([]string{"str", "1", ""})
		}
	}
	root["k.dot"] = map[string]any{"q": g.N(3)}
	root["hid"] = map[string]any{"$output": false, "v": g.N(5), "sub": map[string]any{"p": 1}}
	// target: a path of identifier-like keys (or through k.dot, list form only)
	type tgt struct {
		path []string
		val  any
	}
	var targets []tgt
	var walk func(p []string, v any)
	walk = func(p []string, v any) {
		if len(p) > 0 {
			targets = append(targets, tgt{append([]string{}, p...), v})
		}
		if m, ok := v.(map[string]any); ok {
			for _, k := range gen.SortedKeys(m) {
				if k != "$output" {
					walk(append(p, k), m[k])
				}
			}
		}
	}
	walk(nil, root)
	t := targets[g.N(len(targets))]
	dotted := false
	for _, seg := range t.path {
		if strings.Contains(seg, ".") {
			dotted = true
		}
	}
	pathStr := strings.Join(t.path, ".")
	pathList := make([]any, len(t.path))
	for i, s := range t.path {
		pathList[i] = s
	}
	other := map[string]any{"id": 2, "zz": gen.Clone(root)}
	var ref, inline any
	nested := g.N(2) == 0
	docs := func(h any) []any {
		d := gen.Clone(root).(map[string]any)
		d["id"] = 1
		if !nested {
			d["host"] = h
		} else {
			d["host"] = map[string]any{"n": h}
		}
		return []any{d, gen.Clone(other)}
	}
	val := gen.Clone(t.val)
	tm, isMap := t.val.(map[string]any)
	tl, isList := t.val.([]any)
	form := g.N(10)
	if dotted && (form == 1 || form == 2) {
		form = 0
	}
	switch form {
	case 0:
		ref, inline = map[string]any{"$replace": pathList, "dropped": 1}, val
	case 1:
		ref, inline = map[string]any{"$replace": pathStr}, val
	case 2:
		ref, inline = g.Pick([]string{"$replace:", "$merge:"})+pathStr, val
	case 3: // map-form $merge with local content
		if isMap {
			local := map[string]any{"own": 9}
			if g.P(0.4) {
				local[ky] = map[string]any{"extra": true}
			}
			if _, hid := tm["$output"]; hid {
				ref, inline = map[string]any{"$replace": pathList}, val
				break
			}
			ref = map[string]any{"$merge": pathList}
			for k, v := range local {
				ref.(map[string]any)[k] = v
			}
			inline = overlayMerge(local, val)
		} else {
			ref, inline = map[string]any{"$replace": pathList}, val
		}
	case 4: // list-form
		if isList {
			ref = []any{"first", map[string]any{"$merge": pathList}, "last"}
			inline = append([]any{"first", "last"}, tl...)
		} else {
			ref, inline = []any{"gone", map[string]any{"$replace": pathList}}, val
		}
	case 5: // cross-document, long form
		ref = map[string]any{"$replace": map[string]any{"$match": map[string]any{"id": 2}, "$path": append([]any{"zz"}, pathList...)}}
		inline = val
	case 6: // cross-document, short form
		ref = map[string]any{"$replace": append([]any{map[string]any{"id": 2}, "zz"}, pathList...)}
		inline = val
	case 7: // dangling
		ev := evalEvent(docs(map[string]any{"$replace": append(append([]any{}, pathList...), "nope")}), nil, "error", nil, "dangling")
		return Sess{Lines: [][]byte{ev}}
	case 8: // ambiguous / missing cross-document pattern
		pat := g.Pick([]string{"none", "multi"})
		var p any = map[string]any{"id": 7}
		if pat == "multi" {
			p = map[string]any{}
		}
		ev := evalEvent(docs(map[string]any{"$replace": []any{p, "zz"}}), nil, "error", nil, "cross-"+pat)
		return Sess{Lines: [][]byte{ev}}
	default: // chain: a second reference to the first host
		h := map[string]any{"a": map[string]any{"$replace": pathList}, "b": "$replace:host.a"}
		d := gen.Clone(root).(map[string]any)
		d["id"] = 1
		d["host"] = h
		di := gen.Clone(root).(map[string]any)
		di["id"] = 1
		di["host"] = map[string]any{"a": gen.Clone(val), "b": gen.Clone(val)}
		_, outs := real.EvalStream([]tv.T{tv.FromGo(di)}, nil)
		return Sess{Lines: [][]byte{evalEvent([]any{d}, nil, expectOf(outs), nil, "chain")}}
	}
	_, outs := real.EvalStream(toTagged(docs(inline)), nil)
	return Sess{Lines: [][]byte{evalEvent(docs(ref), nil, expectOf(outs), nil, "ref")}}
}

func toTagged(ds []any) []tv.T {
	out := make([]tv.T, len(ds))
	for i, d := range ds {
		out[i] = tv.FromGo(d)
	}
	return out
}

func expectOf(outs []any) any {
	if outs == nil {
		return "error"
	}
	return outs
}

// overlayMerge: the referenced value layered onto the local content with the
// ordinary merge rules (maps merge, lists concatenate, scalars replaced).
func overlayMerge(local, ref any) any { return overlay(local, ref) }

// ---------------------------------------------------------------------------
// C11

func C11(r *Run) {
	st := modelEval(r, "C11", r.Pick(1, 2))
	g := gen.New(r.Seed*49979687 + 11)
	n := r.Pick(3000, 60000)
	var sessions []Sess
	for i := 0; i < n; i++ {
		wideTrees = i%15 == 14 // every 15th stream in the large regime
		nd := 1 + g.N(2)
		docs := []any{}
		for j := 0; j < nd; j++ {
			docs = append(docs, markedTree(g, 3, false))
		}
		sessions = append(sessions, Sess{Lines: [][]byte{evalEvent(docs, nil, nil, []string{"output"}, "")}})
	}
	// known finding: a marked map that is itself a direct list entry
	for i := 0; i < 20; i++ {
		d := map[string]any{"l": []any{"x", map[string]any{"$output": g.P(0.5), "p": g.N(3)}}, "q": 1}
		sessions = append(sessions, Sess{Lines: [][]byte{withKF(evalEvent([]any{d}, nil, nil, []string{"output"}, "marked map as list entry"), "c11-map-in-list")}})
	}
	finishEvalFamily(r, "C11", st, sessions, []string{"OutputLaw (SameBag with Expected11)", "NoOutputMarkerSurvives", "MarkerWithExtraKeysIsError"},
		"model: all 3^4 placements of true/false/none on the 4 containers of a shape (root map, child map, grandchild map, list), 2-document streams, nested list markers; driver: random trees with markers on random maps (key) and lists (marker entry) to depth 3, 1-2 documents, the law Expected11 evaluated by TLC on the observed outputs")
}

// markedTree: plain data with $output markers; inList: the value is a direct
// list entry (a marked map there is the known finding c11-map-in-list).
// wideTrees: the next generated tree is in the large regime (maps of 8-28 keys and
// lists of up to 20 entries at the top two levels).
var wideTrees = false

func markedTree(g *gen.G, d int, inList bool) any {
	if d <= 0 || g.P(0.25) {
		return g.Pick([]string{"a", "b", "1", ""})
	}
	wide := wideTrees && d >= 2
	if g.P(0.6) {
		m := map[string]any{}
		nk := 1 + g.N(3)
		if wide {
			nk = 8 + g.N(20)
		}
		for i := nk; i > 0; i-- {
			k := g.Pick([]string{"p", "q", "r", "s"})
			if wide {
				k = fmt.Sprintf("%s%02d", k, g.N(30))
			}
			m[k] = markedTree(g, d-1, false)
		}
		if !inList && g.P(0.35) {
			m["$output"] = g.P(0.6)
		}
		return m
	}
	l := []any{}
	nl := g.N(3)
	if wide {
		nl = 5 + g.N(16)
	}
	for i := nl; i > 0; i-- {
		l = append(l, markedTree(g, d-1, true))
	}
	if g.P(0.35) {
		mk := map[string]any{"$output": g.P(0.6)}
		pos := g.N(len(l) + 1)
		l = append(l[:pos], append([]any{mk}, l[pos:]...)...)
	}
	return l
}

// ---------------------------------------------------------------------------
// C12

func C12(r *Run) {
	st := modelEval(r, "C12", r.Pick(3, 5))
	g := gen.New(r.Seed*67867967 + 12)
	n := r.Pick(2500, 50000)
	var sessions []Sess
	for i := 0; i < n; i++ {
		sessions = append(sessions, repeatSession(g))
	}
	finishEvalFamily(r, "C12", st, sessions, []string{"RepeatLaw(doc)", "RepeatLaw(named product, lexicographic)", "RepeatLaw(list)", "RepeatLaw(map)", "RepeatLaw(root list)", "OverrideCount", "NonIntegerCountIsError"},
		"model: counts 0..Bound at document level, named pairs, inside lists, inside maps (computed keys), root lists, count overridden by an upper layer, 8 non-integer counts; driver: random bodies using $repeat / {$repeat} / {$repeat:name} in values, interpolations and keys, expected output = the body substituted by hand per index")
}

// body template: strings may contain the placeholder \x00name\x00 which is
// written as a bkl reference in the document and substituted by hand in the
// expectation.
type rtmpl struct {
	doc  any // with bkl syntax
	want func(ix map[string]int) any
}

func repeatBody(g *gen.G, names []string, d int) rtmpl {
	pickVar := func() string { return names[g.N(len(names))] }
	switch {
	case d > 0 && len(names) == 1 && names[0] == "$repeat" && g.P(0.15):
		// a nested repeat inside a list: it binds its own $repeat and must not
		// disturb the enclosing index used by later siblings
		m := g.N(3)
		return rtmpl{[]any{"h", map[string]any{"$repeat": m, "j": "$repeat", "s": `$"j{$repeat}"`}, "$repeat"},
			func(ix map[string]int) any {
				l := []any{"h"}
				for j := 0; j < m; j++ {
					l = append(l, map[string]any{"j": j, "s": fmt.Sprintf("j%d", j)})
				}
				return append(l, ix["$repeat"])
			}}
	case d <= 0 || g.P(0.4):
		switch g.N(5) {
		case 0:
			if len(names) == 1 && names[0] == "$repeat" {
				return rtmpl{"$repeat", func(ix map[string]int) any { return ix["$repeat"] }}
			}
			fallthrough
		case 1:
			v := pickVar()
			pre := g.Pick([]string{"n", "", "a-", "x:"})
			return rtmpl{fmt.Sprintf(`$"%s{%s}"`, pre, v), func(ix map[string]int) any { return fmt.Sprintf("%s%d", pre, ix[v]) }}
		case 2:
			v, w := pickVar(), pickVar()
			return rtmpl{fmt.Sprintf(`$"{%s}/{%s}"`, v, w), func(ix map[string]int) any { return fmt.Sprintf("%d/%d", ix[v], ix[w]) }}
		default:
			c := g.Pick([]string{"fixed", "v", "7"})
			return rtmpl{c, func(map[string]int) any { return c }}
		}
	case g.P(0.6):
		type kv struct {
			k  string
			kw func(ix map[string]int) string
			v  rtmpl
		}
		var kvs []kv
		for i, k := range []string{"a", "b", "c"}[:1+g.N(3)] {
			k := k
			if i == 0 && g.P(0.3) {
				v := pickVar()
				kvs = append(kvs, kv{fmt.Sprintf(`$"%s{%s}"`, k, v), func(ix map[string]int) string { return fmt.Sprintf("%s%d", k, ix[v]) }, repeatBody(g, names, d-1)})
			} else {
				kvs = append(kvs, kv{k, func(map[string]int) string { return k }, repeatBody(g, names, d-1)})
			}
		}
		doc := map[string]any{}
		for _, e := range kvs {
			doc[e.k] = e.v.doc
		}
		return rtmpl{doc, func(ix map[string]int) any {
			m := map[string]any{}
			for _, e := range kvs {
				m[e.kw(ix)] = e.v.want(ix)
			}
			return m
		}}
	default:
		var es []rtmpl
		for i := g.N(3); i > 0; i-- {
			es = append(es, repeatBody(g, names, d-1))
		}
		doc := []any{}
		for _, e := range es {
			doc = append(doc, e.doc)
		}
		return rtmpl{doc, func(ix map[string]int) any {
			l := []any{}
			for _, e := range es {
				l = append(l, e.want(ix))
			}
			return l
		}}
	}
}

func repeatSession(g *gen.G) Sess {
	switch g.N(6) {
	case 0, 1: // document level, int count
		n := g.N(6)
		b := repeatBody(g, []string{"$repeat"}, 2)
		doc, ok := b.doc.(map[string]any)
		if !ok {
			doc = map[string]any{"v": b.doc}
			inner := b
			b = rtmpl{doc, func(ix map[string]int) any { return map[string]any{"v": inner.want(ix)} }}
		}
		doc["$repeat"] = n
		expect := []any{}
		for i := 0; i < n; i++ {
			expect = append(expect, tv.FromGo(b.want(map[string]int{"$repeat": i})))
		}
		if g.P(0.3) { // the count comes from an upper layer
			low := gen.Clone(doc).(map[string]any)
			low["$repeat"] = n + 1
			return chainEvalSession([]any{low, map[string]any{"$repeat": n}}, expect, "override")
		}
		return Sess{Lines: [][]byte{evalEvent([]any{doc}, nil, expect, nil, "doc")}}
	case 2: // named counts: product in lexicographic order of the names
		names := []string{"x", "y", "z"}[:1+g.N(3)]
		counts := map[string]int{}
		rs := map[string]any{}
		vars := []string{}
		for _, nm := range names {
			counts[nm] = g.N(4)
			rs[nm] = counts[nm]
			vars = append(vars, "$repeat:"+nm)
		}
		b := repeatBody(g, vars, 2)
		doc := map[string]any{"v": b.doc, "$repeat": rs}
		expect := []any{}
		sort.Strings(names)
		var rec func(i int, ix map[string]int)
		rec = func(i int, ix map[string]int) {
			if i == len(names) {
				expect = append(expect, tv.FromGo(map[string]any{"v": b.want(ix)}))
				return
			}
			for c := 0; c < counts[names[i]]; c++ {
				ix["$repeat:"+names[i]] = c
				rec(i+1, ix)
			}
		}
		rec(0, map[string]int{})
		return Sess{Lines: [][]byte{evalEvent([]any{doc}, nil, expect, nil, "named")}}
	case 3: // inside a list
		n := g.N(5)
		b := repeatBody(g, []string{"$repeat"}, 1)
		bm, ok := b.doc.(map[string]any)
		if !ok {
			bm = map[string]any{"v": b.doc}
			inner := b
			b = rtmpl{bm, func(ix map[string]int) any { return map[string]any{"v": inner.want(ix)} }}
		}
		bm["$repeat"] = n
		l := []any{"head"}
		for i := 0; i < n; i++ {
			l = append(l, b.want(map[string]int{"$repeat": i}))
		}
		l = append(l, "tail")
		doc := map[string]any{"l": []any{"head", bm, "tail"}}
		return Sess{Lines: [][]byte{evalEvent([]any{doc}, nil, tagged(map[string]any{"l": l}), nil, "list")}}
	case 4: // inside a map, computed key
		n := 1 + g.N(4)
		b := repeatBody(g, []string{"$repeat"}, 1)
		bm, ok := b.doc.(map[string]any)
		if !ok {
			bm = map[string]any{"v": b.doc}
			inner := b
			b = rtmpl{bm, func(ix map[string]int) any { return map[string]any{"v": inner.want(ix)} }}
		}
		bm["$repeat"] = n
		want := map[string]any{"other": 1}
		for i := 0; i < n; i++ {
			want[fmt.Sprintf("item%d", i)] = b.want(map[string]int{"$repeat": i})
		}
		doc := map[string]any{"m": map[string]any{`$"item{$repeat}"`: bm, "other": 1}}
		return Sess{Lines: [][]byte{evalEvent([]any{doc}, nil, tagged(map[string]any{"m": want}), nil, "map")}}
	default: // not an integer
		bad := []any{"2", 1.5, true, []any{1}, map[string]any{"x": "2"}, map[string]any{"x": 1, "y": 2.5}}[g.N(6)]
		var doc any = map[string]any{"a": "$repeat", "$repeat": bad}
		if g.P(0.4) {
			if _, isMap := bad.(map[string]any); !isMap {
				doc = map[string]any{"l": []any{map[string]any{"a": 1, "$repeat": bad}}}
			}
		}
		return Sess{Lines: [][]byte{evalEvent([]any{doc}, nil, "error", nil, "badcount")}}
	}
}

// chainEvalSession layers docs[1:] over docs[0] through MergeDocument and
// evaluates, with a law expectation on the output.
func chainEvalSession(layers []any, expect any, note string) Sess {
	s := real.NewSess()
	lines := [][]byte{J(map[string]any{"ev": "Reset"})}
	prev := []string{}
	for j, d := range layers {
		id := fmt.Sprintf("L%d", j)
		t := tv.FromGo(d)
		o := s.MergeDocument(id, prev, t)
		lines = append(lines, J(map[string]any{"ev": "MergeDocument", "patch": map[string]any{"id": id, "parents": prev, "data": t}, "ok": o.OK, "docs": s.Docs()}))
		if !o.OK {
			return Sess{Lines: lines}
		}
		prev = []string{id}
	}
	oo, outs := s.OutputDocuments()
	if outs == nil {
		outs = []any{}
	}
	oev := map[string]any{"ev": "Output", "format": "docs", "ok": oo.OK, "outs": outs, "note": note}
	if expect == "error" {
		oev["expecterr"] = true
	} else if expect != nil {
		oev["expect"] = expect
	}
	lines = append(lines, J(oev))
	return Sess{Lines: lines}
}

// ---------------------------------------------------------------------------
// C13

func C13(r *Run) {
	st := modelEval(r, "C13", r.Pick(1, 2))
	g := gen.New(r.Seed*141650939 + 13)
	n := r.Pick(2500, 50000)
	var sessions []Sess
	for i := 0; i < n; i++ {
		sessions = append(sessions, interpSession(g))
	}
	sessions = append(sessions, envDollarSessions(g)...)
	finishEvalFamily(r, "C13", st, sessions, []string{"InterpLaw(literal)", "InterpLaw(one reference)", "InterpLaw(two references)", "EnvIsString", "EnvInKey", "MissingIsError", "NestedTemplate"},
		"model: 8 literal segments x 8 references (document paths, set / empty / unset environment variables, dangling paths) in templates of 0-2 references, $env in values and keys; driver: templates of 0-4 $-free literal segments (punctuation, unicode, closing braces, colons) and 0-4 references to scalar paths, environment variables with look-alike values and unset names, expected string assembled by hand")
}

var litAlphabet = []string{"a", "b", " ", ":", "}", "-", "é", "ü", ".", ",", "/", "=", "\"", "'", "[", "#", "%", "Z", "0", "\n", "\t", "%s"}

func interpSession(g *gen.G) Sess {
	// a document with scalar paths
	doc := map[string]any{
		"n": g.Int(), "s": g.Pick([]string{"str", "", "a b", "é", "1", "true"}), "f": g.Float(), "b": g.P(0.5),
		"m": map[string]any{"x": g.N(100), "deep": map[string]any{"y": g.Pick([]string{"dy", "null"})}},
	}
	paths := map[string]any{"n": doc["n"], "s": doc["s"], "f": doc["f"], "b": doc["b"], "m.x": doc["m"].(map[string]any)["x"],
		"m.deep.y": doc["m"].(map[string]any)["deep"].(map[string]any)["y"]}
	pkeys := []string{"n", "s", "f", "b", "m.x", "m.deep.y"}
	if g.P(0.3) {
		// references whose names are outside ASCII (document keys and an environment variable)
		doc["größe"] = g.N(50)
		doc["сервер"] = map[string]any{"порт": g.N(9000)}
		paths["größe"] = doc["größe"]
		paths["сервер.порт"] = doc["сервер"].(map[string]any)["порт"]
		pkeys = append(pkeys, "größe", "сервер.порт", "größe", "сервер.порт")
	}
	envVals := []string{"alpha", "42", "true", "null", "", "a b", "1.5", "-7", "é", "x:y", "{z}", "[1]", "~", "k=v", "user=admin;pw=x", "=lead", "pad=="}
	env := map[string]string{"BKLV_V1": g.Pick(envVals), "BKLV_V2": g.Pick(envVals), "BKLV_K": g.Pick(envVals)}
	lit := func() string {
		n := g.N(5)
		var sb strings.Builder
		for i := 0; i < n; i++ {
			sb.WriteString(g.Pick(litAlphabet))
		}
		return sb.String()
	}
	fmtv := func(v any) string {
		switch x := v.(type) {
		case float64:
			return tv.FloatToken(x)
		default:
			return fmt.Sprint(v)
		}
	}
	nrefs := g.N(5)
	var tmpl, want strings.Builder
	tmpl.WriteString(`$"`)
	bad := false
	l0 := lit()
	tmpl.WriteString(l0)
	want.WriteString(l0)
	for i := 0; i < nrefs; i++ {
		switch r := g.N(10); {
		case r < 5:
			p := g.Pick(pkeys)
			tmpl.WriteString("{" + p + "}")
			want.WriteString(fmtv(paths[p]))
		case r < 8:
			v := g.Pick([]string{"BKLV_V1", "BKLV_V2"})
			tmpl.WriteString("{$env:" + v + "}")
			want.WriteString(env[v])
		case r < 9:
			tmpl.WriteString("{$env:BKLV_UNSET_" + fmt.Sprint(g.N(3)) + "}")
			bad = true
		default:
			tmpl.WriteString("{" + g.Pick([]string{"nope", "m.nope", "m.x.y", "n.z", "fehlt_ü", "нет"}) + "}")
			bad = true
		}
		l := lit()
		tmpl.WriteString(l)
		want.WriteString(l)
	}
	tmpl.WriteString(`"`)
	var expect any
	wantDoc := gen.Clone(doc).(map[string]any)
	switch g.N(4) {
	case 0: // the template as a key
		doc[tmpl.String()] = "val"
		wantDoc[want.String()] = "val"
	case 1: // $env as a whole value and as a key
		v := g.Pick([]string{"BKLV_V1", "BKLV_V2", "BKLV_UNSET_9"})
		doc["e"] = "$env:" + v
		if v == "BKLV_UNSET_9" {
			bad = true
		} else {
			wantDoc["e"] = env[v]
			doc["$env:BKLV_K"] = 1
			wantDoc[env["BKLV_K"]] = 1
		}
		doc["t"] = tmpl.String()
		wantDoc["t"] = want.String()
	default:
		doc["t"] = tmpl.String()
		wantDoc["t"] = want.String()
	}
	if bad {
		expect = "error"
	} else {
		// a computed key may collide with an existing one: then the law's
		// expectation is not defined by the property; skip the expectation
		if len(wantDoc) != len(doc) {
			expect = nil
		} else {
			expect = tagged(wantDoc)
		}
	}
	return Sess{Lines: [][]byte{evalEvent([]any{doc}, env, expect, nil, "")}}
}

// envDollarSessions: environment values containing $ forms (known finding
// c13-env-dollar): the value must come through unchanged.
func envDollarSessions(g *gen.G) []Sess {
	var out []Sess
	for _, v := range []string{"a$$b", "$required", "$merge:a", "$bogus", `$"{n}"`, "$env:BKLV_V2", "$$"} {
		env := map[string]string{"BKLV_V1": v, "BKLV_V2": "two"}
		d1 := map[string]any{"n": 1, "e": "$env:BKLV_V1"}
		out = append(out, Sess{Lines: [][]byte{withKF(evalEvent([]any{d1}, env, tagged(map[string]any{"n": 1, "e": v}), nil, "env value with $ as a whole value"), "c13-env-dollar")}})
		d2 := map[string]any{"n": 1, "t": `$"<{$env:BKLV_V1}>"`}
		out = append(out, Sess{Lines: [][]byte{withKF(evalEvent([]any{d2}, env, tagged(map[string]any{"n": 1, "t": "<" + v + ">"}), nil, "env value with $ inside a template"), "c13-env-dollar")}})
	}
	return out
}
