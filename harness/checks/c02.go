package checks

import (
	"fmt"
	"path/filepath"
	"sync"

	"bklverif/fsx"

	"bklverif/gen"
	"bklverif/real"
	"bklverif/tv"
)

// streamSession: a base stream (chain A, 1-4 documents, plus sometimes an
// unrelated document B), then 1-3 layers of 1-3 documents whose parents are
// all documents of the previous layer of chain A (what file loading sets
// up), with or without document-level $match.
func streamSession(g *gen.G, idx int) Sess {
	s := real.NewSess()
	lines := [][]byte{J(map[string]any{"ev": "Reset"})}
	var meta []any
	alive := true
	merge := func(id string, parents []string, data any) bool {
		t := tv.FromGo(data)
		meta = append(meta, map[string]any{"id": id, "parents": parents, "data": t})
		o := s.MergeDocument(id, parents, t)
		ev := map[string]any{"ev": "MergeDocument",
			"patch": map[string]any{"id": id, "parents": parents, "data": t},
			"ok":    o.OK, "err": o.Class, "docs": s.Docs()}
		if o.Panic {
			ev["panic"] = o.Msg
		}
		lines = append(lines, J(ev))
		return o.OK
	}
	nb := 1 + g.N(4)
	prev := []string{}
	shape := g.Map(2)
	for i := 0; i < nb && alive; i++ {
		var d any
		switch {
		case i > 0 && g.P(0.5):
			// a variant of the first document: same shape, so that one patch fits several
			m := gen.Clone(shape).(map[string]any)
			m["id"] = i
			d = m
		case g.P(0.1):
			d = g.List(2)
		case g.P(0.05):
			d = g.Scalar()
		default:
			m := g.Map(2)
			m["id"] = i
			d = m
		}
		if m, ok := d.(map[string]any); ok {
			delete(m, "$match")
		}
		id := fmt.Sprintf("s%d.A0.d%d", idx, i)
		alive = merge(id, nil, d)
		prev = append(prev, id)
	}
	if alive && g.P(0.3) {
		m := g.Map(2)
		m["id"] = "B"
		alive = merge(fmt.Sprintf("s%d.B.d0", idx), nil, m)
	}
	nl := 1 + g.N(3)
	for l := 1; l <= nl && alive; l++ {
		nd := 1 + g.N(3)
		cur := []string{}
		for j := 0; j < nd && alive; j++ {
			docs := s.P.Documents()
			target := docs[g.N(len(docs))].Data
			data := g.Patch(target, 2)
			if m, ok := data.(map[string]any); ok {
				delete(m, "$match")
				switch r := g.N(20); {
				case r < 10:
				case r < 12:
					m["$match"] = map[string]any{}
				case r < 16:
					m["$match"] = g.Pattern(target, 1)
				case r < 17:
					m["$match"] = nil
				case r < 18:
					m["$match"] = map[string]any{"id": g.N(4)}
				case r < 19:
					m["$match"] = map[string]any{"id": "B"}
				default:
					m["$match"] = map[string]any{"id": g.N(3), "$invert": true}
				}
			}
			id := fmt.Sprintf("s%d.A%d.d%d", idx, l, j)
			alive = merge(id, prev, data)
			cur = append(cur, id)
		}
		prev = cur
	}
	if alive {
		lines = append(lines, J(map[string]any{"ev": "Documents", "docs": s.Docs()}))
	}
	return Sess{Lines: lines, Meta: map[string]any{"calls": meta}}
}

// streamLayout: the same kind of stream layering, written as layer files
// a <- a.b <- a.b.c (multi-document files, document-level $match) and run
// through the real bkl binary; validated against RunLayers.
func streamLayout(g *gen.G) *layout {
	l := &layout{Fs: map[string]fsx.Entry{}, Root: "/"}
	nb := 1 + g.N(3)
	shape := g.Map(2)
	var base []any
	for i := 0; i < nb; i++ {
		var m map[string]any
		if i > 0 && g.P(0.5) {
			m = gen.Clone(shape).(map[string]any)
		} else {
			m = g.Map(2)
		}
		delete(m, "$match")
		delete(m, "$parent")
		m["id"] = i
		base = append(base, m)
	}
	name := "a"
	exts := []string{"yaml", "json", "yml", "jsonl"}
	l.Fs["/w/"+name+"."+g.Pick(exts)] = fsx.Entry{Kind: "file", Docs: toTagged(base)}
	last := ""
	for p := range l.Fs {
		last = filepath.Base(p)
	}
	cur := base
	for j := 1 + g.N(2); j > 0; j-- {
		nd := 1 + g.N(2)
		var docs []any
		for k := 0; k < nd; k++ {
			target := cur[g.N(len(cur))]
			data, ok := g.Patch(target, 2).(map[string]any)
			if !ok {
				data = map[string]any{"extra": g.N(5)}
			}
			delete(data, "$match")
			delete(data, "$parent")
			switch r := g.N(10); {
			case r < 5:
			case r < 6:
				data["$match"] = map[string]any{}
			case r < 8:
				data["$match"] = map[string]any{"id": g.N(nb + 1)}
			case r < 9:
				data["$match"] = nil
			default:
				data["$match"] = map[string]any{"id": g.N(nb), "$invert": true}
			}
			docs = append(docs, data)
		}
		name += "." + string(rune('a'+j))
		ext := g.Pick(exts)
		l.Fs["/w/"+name+"."+ext] = fsx.Entry{Kind: "file", Docs: toTagged(docs)}
		last = name + "." + ext
	}
	l.Inputs = []string{last}
	return l
}

// streamGrid: a systematic family of three-layer file chains. The base holds
// 1..7 documents; the middle layer holds two documents in either order - one
// appended by `$match: null` (or matched by pattern / by default), one matched by
// pattern; the top layer has no $match and must reach EVERY document of the
// layer below, the appended one included. (The number of documents matters:
// bookkeeping slices shared between the documents of a file have spare
// capacity only for some lengths.)
func streamGrid() []*layout {
	var out []*layout
	for nb := 1; nb <= 7; nb++ {
		for variant := 0; variant < 4; variant++ {
			var base []any
			for i := 0; i < nb; i++ {
				base = append(base, map[string]any{"id": i, "name": fmt.Sprintf("a%d", i)})
			}
			appended := map[string]any{"$match": nil, "name": "extra"}
			byPattern := map[string]any{"$match": map[string]any{"id": 0}, "b": 1}
			var mid []any
			switch variant {
			case 0:
				mid = []any{appended, byPattern}
			case 1:
				mid = []any{byPattern, appended}
			case 2:
				mid = []any{appended, map[string]any{"all": true}}
			default:
				mid = []any{appended, map[string]any{"$match": map[string]any{"name": "extra"}, "found": true}, byPattern}
			}
			top := []any{map[string]any{"tag": "c"}}
			l := &layout{Fs: map[string]fsx.Entry{}, Root: "/", Inputs: []string{"a.b.c.yaml"}}
			l.Fs["/w/a.yaml"] = fsx.Entry{Kind: "file", Docs: toTagged(base)}
			l.Fs["/w/a.b.yaml"] = fsx.Entry{Kind: "file", Docs: toTagged(mid)}
			l.Fs["/w/a.b.c.yaml"] = fsx.Entry{Kind: "file", Docs: toTagged(top)}
			out = append(out, l)
		}
	}
	// long scalar lists given to every document by one layer, then extended per document
	// by the next (slices shared between documents have spare capacity only for some lengths)
	for _, n := range []int{3, 16, 17, 20, 33, 34, 40, 64, 65, 100} {
		ports := make([]any, n)
		for i := range ports {
			ports[i] = i + 1
		}
		l := &layout{Fs: map[string]fsx.Entry{}, Root: "/", Inputs: []string{"a.b.c.json"}}
		l.Fs["/w/a.yaml"] = fsx.Entry{Kind: "file", Docs: toTagged([]any{map[string]any{"id": 0}, map[string]any{"id": 1}, map[string]any{"id": 2}})}
		l.Fs["/w/a.b.yaml"] = fsx.Entry{Kind: "file", Docs: toTagged([]any{map[string]any{"ports": ports, "names": []any{"x", "y"}}})}
		l.Fs["/w/a.b.c.json"] = fsx.Entry{Kind: "file", Docs: toTagged([]any{
			map[string]any{"$match": map[string]any{"id": 0}, "ports": []any{1001}, "names": []any{"zero"}},
			map[string]any{"$match": map[string]any{"id": 1}, "ports": []any{2002, 2003}},
		})}
		out = append(out, l)
	}
	return out
}

func C02(r *Run) {
	st := modelHistories(r, "C02", r.Pick(3, 4))
	r.Logf("model: %d states, %d histories replayed", st.States, st.Replayed)
	g := gen.New(r.Seed*104729 + 2)
	g.ReqP = 0.01
	n := r.Pick(2000, 40000)
	sessions := make([]Sess, n)
	distinct := map[string]bool{}
	gb := gen.New(r.Seed*104729 + 100002).Big()
	gb.ReqP = 0.01
	for i := range sessions {
		if i%12 == 11 {
			sessions[i] = streamSession(gb, i)
		} else {
			sessions[i] = streamSession(g, i)
		}
		distinct[string(J(sessions[i].Meta))] = true
	}
	r.Logf("generated %d sessions", n)
	// the file route
	nf := r.Pick(300, 6000)
	var mu sync.Mutex
	var wg sync.WaitGroup
	sem := make(chan struct{}, Cores())
	files := 0
	grid := streamGrid()
	for i := 0; i < nf+len(grid); i++ {
		var l *layout
		if i < len(grid) {
			l = grid[i]
		} else {
			l = streamLayout(g)
		}
		wg.Add(1)
		sem <- struct{}{}
		go func() {
			defer wg.Done()
			defer func() { <-sem }()
			sess, ok := runSession(r, l, false)
			if !ok {
				return
			}
			mu.Lock()
			sessions = append(sessions, sess)
			files++
			mu.Unlock()
		}()
	}
	wg.Wait()
	r.Cov["file_route_layouts"] = files
	res := r.Validate("C02", sessions, nil)
	for _, b := range res.Bad {
		s := sessions[b.Session]
		r.Violate(fmt.Sprintf("stream layering: call %d: %s", b.Event, b.Why),
			map[string]any{"kind": "trace", "events": Lines(s), "event": b.Event})
	}
	r.Sample(sessions[0].Meta)
	r.modelCov(st, []string{"OrderPreserved", "OnlyTargetsChange", "AsIfAlone", "AppendIsPatch"})
	r.Cov["traces_validated_against_impl"] = len(sessions)
	r.Cov["trace_events"] = res.Events
	r.Cov["trace_events_compared"] = res.Checked
	r.Cov["evaluations"] = len(sessions)
	r.Cov["distinct_nontrivial"] = len(distinct)
	r.Cov["rule"] = "base streams of 1-4 documents (+ an unrelated one), 1-3 layers of 1-3 documents, $match absent/{}/pattern/null/invert/miss, through successive MergeDocument calls on one Parser and through layer files (a <- a.b <- a.b.c, multi-document files) run by the real bkl; distinct = distinct call sequences"
	r.Cov["checker_cmd"] = first(res.Cmds)
}
