package checks

import (
	"fmt"

	"bklverif/gen"
	"bklverif/real"
	"bklverif/tv"
)

// streamSession: a base stream (chain A, 1-4 documents, plus sometimes an
// unrelated document B), then 1-3 layers of 1-3 documents whose parents are
// all documents of the previous layer of chain A (what file loading sets
// up), with or without document-level $match.
func streamSession(g *gen.G, idx int) Sess {
	s := real.NewSess()
	lines := [][]byte{J(map[string]any{"ev": "Reset"})}
	var meta []any
	alive := true
	merge := func(id string, parents []string, data any) bool {
		t := tv.FromGo(data)
		meta = append(meta, map[string]any{"id": id, "parents": parents, "data": t})
		o := s.MergeDocument(id, parents, t)
		ev := map[string]any{"ev": "MergeDocument",
			"patch": map[string]any{"id": id, "parents": parents, "data": t},
			"ok":    o.OK, "err": o.Class, "docs": s.Docs()}
		if o.Panic {
			ev["panic"] = o.Msg
		}
		lines = append(lines, J(ev))
		return o.OK
	}
	nb := 1 + g.N(4)
	prev := []string{}
	shape := g.Map(2)
	for i := 0; i < nb && alive; i++ {
		var d any
		switch {
		case i > 0 && g.P(0.5):
			// a variant of the first document: same shape, so that one patch fits several
			m := gen.Clone(shape).(map[string]any)
			m["id"] = i
			d = m
		case g.P(0.1):
			d = g.List(2)
		case g.P(0.05):
			d = g.Scalar()
		default:
			m := g.Map(2)
			m["id"] = i
			d = m
		}
		if m, ok := d.(map[string]any); ok {
			delete(m, "$match")
		}
		id := fmt.Sprintf("s%d.A0.d%d", idx, i)
		alive = merge(id, nil, d)
		prev = append(prev, id)
	}
	if alive && g.P(0.3) {
		m := g.Map(2)
		m["id"] = "B"
		alive = merge(fmt.Sprintf("s%d.B.d0", idx), nil, m)
	}
	nl := 1 + g.N(3)
	for l := 1; l <= nl && alive; l++ {
		nd := 1 + g.N(3)
		cur := []string{}
		for j := 0; j < nd && alive; j++ {
			docs := s.P.Documents()
			target := docs[g.N(len(docs))].Data
			data := g.Patch(target, 2)
			if m, ok := data.(map[string]any); ok {
				delete(m, "$match")
				switch r := g.N(20); {
				case r < 10:
				case r < 12:
					m["$match"] = map[string]any{}
				case r < 16:
					m["$match"] = g.Pattern(target, 1)
				case r < 17:
					m["$match"] = nil
				case r < 18:
					m["$match"] = map[string]any{"id": g.N(4)}
				case r < 19:
					m["$match"] = map[string]any{"id": "B"}
				default:
					m["$match"] = map[string]any{"id": g.N(3), "$invert": true}
				}
			}
			id := fmt.Sprintf("s%d.A%d.d%d", idx, l, j)
			alive = merge(id, prev, data)
			cur = append(cur, id)
		}
		prev = cur
	}
	if alive {
		lines = append(lines, J(map[string]any{"ev": "Documents", "docs": s.Docs()}))
	}
	return Sess{Lines: lines, Meta: map[string]any{"calls": meta}}
}

func C02(r *Run) {
	st := modelHistories(r, "C02", r.Pick(3, 4))
	r.Logf("model: %d states, %d histories replayed", st.States, st.Replayed)
	g := gen.New(r.Seed*104729 + 2)
	g.ReqP = 0.01
	n := r.Pick(2000, 40000)
	sessions := make([]Sess, n)
	distinct := map[string]bool{}
	for i := range sessions {
		sessions[i] = streamSession(g, i)
		distinct[string(J(sessions[i].Meta))] = true
	}
	r.Logf("generated %d sessions", n)
	res := r.Validate("C02", sessions, nil)
	for _, b := range res.Bad {
		s := sessions[b.Session]
		r.Violate(fmt.Sprintf("stream layering: call %d: %s", b.Event, b.Why),
			map[string]any{"kind": "trace", "events": Lines(s), "event": b.Event})
	}
	r.Sample(sessions[0].Meta)
	r.modelCov(st, []string{"OrderPreserved", "OnlyTargetsChange", "AsIfAlone", "AppendIsPatch"})
	r.Cov["traces_validated_against_impl"] = len(sessions)
	r.Cov["trace_events"] = res.Events
	r.Cov["trace_events_compared"] = res.Checked
	r.Cov["evaluations"] = len(sessions)
	r.Cov["distinct_nontrivial"] = len(distinct)
	r.Cov["rule"] = "base streams of 1-4 documents (+ an unrelated one), 1-3 layers of 1-3 documents, $match absent/{}/pattern/null/invert/miss; distinct = distinct call sequences"
	r.Cov["checker_cmd"] = first(res.Cmds)
}
