package checks

import (
	"os"
	"path/filepath"
	"regexp"
	"strings"

	"github.com/gopatchy/bkl"

	"bklverif/fsx"
	"bklverif/indep"
	"bklverif/real"
	"bklverif/tv"
)

var reFixtureCmd = regexp.MustCompile(`^(!\s*)?((?:[A-Z_]+=\S+\s+)*)bkl((?:\s+[A-Za-z0-9_./-]+\.(?:yaml|yml|json|jsonl|toml))+)(\s+2>/dev/null)?\s*$`)

// fixtureSessions re-runs the repository's own tests/* fixtures of the form
// `bkl <files>` through the library: the layers are merged from the files,
// the merged documents are projected (before any output call), then the
// stream is evaluated; one Eval event per fixture.
func fixtureSessions(repo string) (sessions []Sess, names []string) {
	ents, _ := os.ReadDir(filepath.Join(repo, "tests"))
	cwd, _ := os.Getwd()
	defer os.Chdir(cwd)
	for _, e := range ents {
		dir := filepath.Join(repo, "tests", e.Name())
		b, err := os.ReadFile(filepath.Join(dir, "cmd"))
		if err != nil {
			continue
		}
		cmd := strings.TrimSpace(string(b))
		if strings.Contains(cmd, "\n") {
			continue
		}
		m := reFixtureCmd.FindStringSubmatch(cmd)
		if m == nil {
			continue
		}
		env := map[string]string{}
		for _, kv := range strings.Fields(m[2]) {
			p := strings.SplitN(kv, "=", 2)
			env[p[0]] = p[1]
		}
		files := strings.Fields(m[3])
		if err := os.Chdir(dir); err != nil {
			continue
		}
		p, _ := bkl.New()
		loaded := true
		for _, f := range files {
			rp, _, err := bkl.FileMatch(f)
			if err != nil {
				loaded = false
				break
			}
			if err := p.MergeFileLayers(rp); err != nil {
				loaded = false
				break
			}
		}
		if !loaded {
			continue // layering itself fails: not an evaluator case
		}
		docs := []any{}
		raw := []tv.T{}
		skip := false
		for _, d := range p.Documents() {
			t := tv.FromGo(d.Data)
			if m, ok := d.Data.(map[string]any); ok {
				if _, has := m["$match"]; has {
					skip = true
				}
			}
			docs = append(docs, map[string]any{"id": d.ID, "data": t})
			raw = append(raw, t)
		}
		if skip {
			continue
		}
		o, outs := real.EvalStream(raw, env)
		ev := map[string]any{"ev": "Eval", "docs": docs, "env": env, "ok": o.OK, "outs": outs, "fixture": e.Name()}
		if outs == nil {
			ev["outs"] = []any{}
		}
		sessions = append(sessions, Sess{Lines: [][]byte{J(ev)}, Meta: map[string]any{"fixture": e.Name()}})
		names = append(names, e.Name())
	}
	return
}

// fixtureLayouts turns the fixtures `bkl [-P] <files>` into layouts for the
// FILE route: every layer file of the fixture directory is taken as it is
// (Raw) and means what the independent decoder reads from it (Docs), the
// fixture's inputs are the command's files. The real bkl then runs on a copy
// of the directory and TLC judges resolver, merge and evaluation together.
func fixtureLayouts(repo string) (ls []*layout, names []string, skipped map[string]int) {
	skipped = map[string]int{}
	reCmd := regexp.MustCompile(`^((?:[A-Z_]+=\S+\s+)*)bkl(\s+-P)?((?:\s+[A-Za-z0-9_./-]+\.(?:yaml|yml|json|jsonl|toml))+)\s*$`)
	ents, _ := os.ReadDir(filepath.Join(repo, "tests"))
	for _, e := range ents {
		dir := filepath.Join(repo, "tests", e.Name())
		b, err := os.ReadFile(filepath.Join(dir, "cmd"))
		if err != nil {
			continue
		}
		cmd := strings.TrimSpace(string(b))
		m := reCmd.FindStringSubmatch(cmd)
		if m == nil || strings.Contains(cmd, "\n") {
			skipped["command form"]++
			continue
		}
		if strings.TrimSpace(m[1]) != "" {
			skipped["environment"]++
			continue
		}
		l := &layout{Fs: map[string]fsx.Entry{}, Root: "/", Skip: strings.TrimSpace(m[2]) == "-P", Tag: e.Name()}
		files, _ := os.ReadDir(dir)
		ok := true
		for _, f := range files {
			ext := strings.TrimPrefix(filepath.Ext(f.Name()), ".")
			if f.IsDir() || f.Type()&os.ModeSymlink != 0 {
				ok = false
				break
			}
			switch ext {
			case "yaml", "yml", "json", "jsonl", "toml":
			default:
				continue
			}
			text, err := os.ReadFile(filepath.Join(dir, f.Name()))
			if err != nil {
				ok = false
				break
			}
			docs, dok, _, derr := indep.Decode(ext, string(text))
			if derr != nil {
				Fatal("independent decoder: %v", derr)
			}
			if !dok || !representable(docs) {
				ok = false
				break
			}
			en := fsx.Entry{Kind: "file", Raw: text}
			for _, d := range docs {
				en.Docs = append(en.Docs, d.([]any))
			}
			l.Fs["/w/"+f.Name()] = en
		}
		if !ok {
			skipped["layer not representable for the independent decoder"]++
			continue
		}
		l.Inputs = strings.Fields(m[3])
		ls = append(ls, l)
		names = append(names, e.Name())
	}
	return
}
