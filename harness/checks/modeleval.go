package checks

import (
	"crypto/sha1"
	"encoding/json"
	"fmt"
	"path/filepath"
	"sync"
	"time"

	"bklverif/real"
	"bklverif/tlc"
	"bklverif/tv"
)

type evalVector struct {
	Family string `json:"family"`
	Tag    string `json:"tag"`
	Chain  bool   `json:"chain"`
	Docs   []tv.T `json:"docs"`
	Env    any    `json:"env"`
	OK     bool   `json:"ok"`
	Outs   []any  `json:"outs"`
	Err    string `json:"err"`
}

func envOf(v any) map[string]string {
	out := map[string]string{}
	if m, ok := v.(map[string]any); ok {
		for k, e := range m {
			out[k] = fmt.Sprint(e)
		}
	}
	return out
}

// replayEval evaluates one case of a bounded evaluator model on the real
// library: a stream of documents, or a chain of layers.
func replayEval(v *evalVector) (bool, map[string]any) {
	env := envOf(v.Env)
	var o real.Outcome
	var outs []any
	if v.Chain {
		real.WithEnv(env, func() {
			s := real.NewSess()
			o = s.MergeDocument("L0", nil, v.Docs[0])
			if !o.OK {
				return
			}
			for i := 1; i < len(v.Docs); i++ {
				o = s.MergeDocument(fmt.Sprintf("L%d", i), []string{fmt.Sprintf("L%d", i-1)}, v.Docs[i])
				if !o.OK {
					return
				}
			}
			o, outs = s.OutputDocuments()
		})
	} else {
		o, outs = real.EvalStream(v.Docs, env)
	}
	obs := map[string]any{"ok": o.OK, "err": o.Msg, "outs": outs}
	if o.Panic {
		obs["panic"] = true
	}
	if o.OK != v.OK {
		return false, obs
	}
	if !o.OK {
		return true, obs
	}
	if outs == nil {
		outs = []any{}
	}
	return docsEqual(outs, v.Outs), obs
}

// modelEval runs MC_Eval for a family and replays every case.
func modelEval(r *Run, family string, bound int) modelStats {
	return modelEvalWith(r, family, bound, replayEval)
}

// ShardSubset: when > 0, only that many of the model's shards are explored
// (rotating with the seed); the evidence says so.
var ShardSubset = 0

// ModelFuel is the depth guard constant of the bounded evaluator models.
var ModelFuel = 64

func modelEvalWith(r *Run, family string, bound int, replay func(*evalVector) (bool, map[string]any)) modelStats {
	nsh := 6
	var st modelStats
	var mu sync.Mutex
	seen := map[[20]byte]bool{}
	tags := map[string]int{}
	var wg sync.WaitGroup
	// ShardSubset > 0: the universe is cut into nsh*ShardSubset parts and the nsh
	// processes explore one part each (1/ShardSubset of the whole), rotating with the seed
	total := nsh
	if ShardSubset > 0 {
		total = nsh * ShardSubset
		r.Cov["model_universe_fraction_explored"] = fmt.Sprintf("1/%d (rotating with the seed)", ShardSubset)
	}
	for k := 0; k < nsh; k++ {
		sh := k
		if ShardSubset > 0 {
			sh = k + nsh*int(r.Seed%int64(ShardSubset))
		}
		wg.Add(1)
		go func(sh int) {
			defer wg.Done()
			dir := filepath.Join(r.Dir, fmt.Sprintf("mc-eval-%s-%d", family, sh))
			cfg := fmt.Sprintf("SPECIFICATION Spec\nCONSTANTS\n CharOrder <- AsciiOrder\n LowerSet <- AsciiLower\n MaxFuel = %d\n Family = \"%s\"\n Bound = %d\n Shard = %d\n NShards = %d\nINVARIANT TypeOK\nCHECK_DEADLOCK FALSE\n", ModelFuel, family, bound, sh, total)
			res, err := tlc.RunModelCfg(dir, "MC_Eval", cfg, 4, "4g", 90*time.Minute, func(js []byte) {
				h := sha1.Sum(js)
				mu.Lock()
				st.Vectors++
				dup := seen[h]
				seen[h] = true
				mu.Unlock()
				if dup {
					return
				}
				var v evalVector
				if err := json.Unmarshal(js, &v); err != nil {
					Fatal("bad vector from TLC: %v: %.300s", err, js)
				}
				if v.Err == "undef" {
					// outside the modelled domain (e.g. a path string that YAML does not parse to itself): no verdict
					mu.Lock()
					tags["undef"]++
					mu.Unlock()
					return
				}
				if v.Err == "need" && family != "C14" {
					// the case needs a byte-level codec (an environment function): only C14 supplies them
					mu.Lock()
					tags["needs_codec_skipped"]++
					mu.Unlock()
					return
				}
				agree, obs := replay(&v)
				mu.Lock()
				st.Replayed++
				tags[v.Tag]++
				if tags[v.Tag] <= 1 {
					r.Sample(map[string]any{"model_case": json.RawMessage(js)})
				}
				if !agree {
					r.Violate(fmt.Sprintf("bounded model case (%s): the real library disagrees with the specification", v.Tag),
						map[string]any{"kind": "evalvector", "vector": json.RawMessage(js), "observed": obs})
				}
				mu.Unlock()
			})
			if err != nil {
				Fatal("MC_Eval(%s): %v", family, err)
			}
			if res.InvariantBad {
				Fatal("MC_Eval(%s): the specification violates its own law: %s", family, res.Output)
			}
			mu.Lock()
			st.States += res.Generated
			st.Distinct += res.Distinct
			st.Cmd = res.Cmd
			mu.Unlock()
		}(sh)
	}
	wg.Wait()
	if st.Replayed < 20 {
		Fatal("MC_Eval(%s) produced only %d cases", family, st.Replayed)
	}
	r.Cov["model_cases_by_kind"] = tags
	return st
}
