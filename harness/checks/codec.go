package checks

import (
	"bytes"
	"crypto/sha256"
	"encoding/base64"
	"encoding/hex"
	"encoding/json"
	"fmt"
	"strings"

	"github.com/gopatchy/bkl"

	"bklverif/indep"
	"bklverif/tlc"
	"bklverif/tv"
)

// answerNeed computes one codec value with an implementation that is
// independent of bkl's evaluator: crypto/sha256, encoding/base64, the
// independent decoders for dec:*; for enc:* the text comes from bkl's public
// format encoder and is verified by the independent decoder in an extra
// Codec event (returned as second value).
func answerNeed(name string, arg any) (entry map[string]any, codecEvent []byte) {
	t, _ := arg.([]any)
	entry = map[string]any{"name": name, "in": arg}
	switch {
	case name == "base64":
		entry["out"] = tv.T{"s", base64.StdEncoding.EncodeToString([]byte(t[1].(string)))}
	case name == "sha256":
		h := sha256.Sum256([]byte(t[1].(string)))
		entry["out"] = tv.T{"s", hex.EncodeToString(h[:])}
	case strings.HasPrefix(name, "dec:"):
		f := strings.TrimPrefix(name, "dec:")
		docs, ok, _, err := indep.Decode(f, t[1].(string))
		if err != nil {
			Fatal("independent decoder: %v", err)
		}
		if !ok || len(docs) != 1 {
			entry["out"] = tv.T{"x", "error"}
		} else {
			entry["out"] = docs[0]
		}
	case strings.HasPrefix(name, "enc:"):
		f := strings.TrimPrefix(name, "enc:")
		fm, err := bkl.GetFormat(f)
		if err != nil {
			entry["out"] = tv.T{"x", "error"}
			break
		}
		b, err := fm.MarshalStream([]any{tv.ToGo(arg)})
		if err != nil {
			entry["out"] = tv.T{"x", "error"}
			break
		}
		entry["out"] = tv.T{"s", string(b)}
		if f == "toml" {
			// TOML can only represent map-rooted, null-free documents; what
			// the encoder prints for other values is outside the property
			if _, isMap := tv.ToGo(arg).(map[string]any); !isMap {
				break
			}
		}
		docs, ok, _, derr := indep.Decode(f, string(b))
		if derr != nil {
			Fatal("independent decoder: %v", derr)
		}
		if docs == nil {
			docs = []any{}
		}
		cev := map[string]any{"ev": "Codec", "name": name, "value": arg, "text": string(b), "decoded": ok, "docs": docs}
		if f == "json" || f == "json-pretty" || f == "jsonl" {
			// the three JSON encoders write the same tokens for the same value: they differ in white space only
			compact := func(x []byte) string {
				var buf bytes.Buffer
				if json.Compact(&buf, bytes.TrimSpace(x)) != nil {
					return "not JSON: " + string(x)
				}
				return buf.String()
			}
			consistent := true
			for _, of := range []string{"json", "json-pretty", "jsonl"} {
				ofm, _ := bkl.GetFormat(of)
				ob, oerr := ofm.MarshalStream([]any{tv.ToGo(arg)})
				if oerr != nil || compact(ob) != compact(b) {
					consistent = false
				}
			}
			cev["consistent"] = consistent
		}
		codecEvent = J(cev)
	default:
		entry["out"] = tv.T{"x", "error"}
	}
	return
}

// ValidateWithCodecs validates sessions, answering the specification's
// requests for codec values (up to five rounds: codecs may be stacked).
func (r *Run) ValidateWithCodecs(family string, sessions []Sess) (*tlc.ShardedResult, int) {
	answered := 0
	seenCodecEv := map[string]bool{}
	var res *tlc.ShardedResult
	limit := r.UndefLimit
	r.UndefLimit = 1
	defer func() { r.UndefLimit = limit }()
	for round := 0; round < 6; round++ {
		res = r.Validate(family, sessions, nil)
		if len(res.Needs) == 0 {
			if res.Events > 0 && float64(res.Undef) > limit*float64(res.Events) {
				Fatal("trace validation (%s): %d of %d events outside the modelled domain", family, res.Undef, res.Events)
			}
			return res, answered
		}
		for _, nd := range res.Needs {
			s := &sessions[nd.Session]
			var ev map[string]any
			if err := json.Unmarshal(s.Lines[nd.Event], &ev); err != nil {
				Fatal("event: %v", err)
			}
			entry, cev := answerNeed(nd.Name, nd.Arg)
			codec, _ := ev["codec"].([]any)
			ev["codec"] = append(codec, entry)
			s.Lines[nd.Event] = J(ev)
			answered++
			if cev != nil && !seenCodecEv[string(cev)] {
				seenCodecEv[string(cev)] = true
				s.Lines = append(s.Lines, cev)
			}
		}
	}
	Fatal("codec requests of the specification did not converge (%s): %d still open, e.g. %v", family, len(res.Needs), fmt.Sprint(res.Needs[0]))
	return nil, 0
}
