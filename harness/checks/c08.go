package checks

import (
	"bufio"
	"bytes"
	"encoding/json"
	"fmt"
	"math/rand"
	"os"
	"path/filepath"
	"strconv"
	"strings"
	"sync"
	"sync/atomic"
	"time"

	"bklverif/fsx"
	"bklverif/gen"
	"bklverif/tv"
)

const procTimeout = 15 * time.Second

var retryMu sync.Mutex
var confirmedHangs, skippedTimeouts int64

// runTool runs a tool; a run that hits the timeout is repeated once, alone
// (no other retry at the same time) and with four times the budget, so that
// a slow run on a loaded machine is never reported as a hang.
func runTool(dir string, argv []string, env map[string]string) fsx.RunResult {
	if atomic.LoadInt64(&confirmedHangs) >= 3 {
		// three hangs are confirmed: the check fails; the rest of the exploration is
		// cut short instead of waiting for every further hang
		atomic.AddInt64(&skippedTimeouts, 1)
		return fsx.RunResult{Exit: 1, Stderr: []byte("skipped after three confirmed hangs")}
	}
	res := fsx.Run(dir, limited(argv), env, nil, procTimeout, false)
	if res.TimedOut {
		if atomic.LoadInt64(&confirmedHangs) >= 3 {
			// three hangs are already confirmed (the check fails anyway): further
			// timeouts are neither confirmed nor reported, only counted
			atomic.AddInt64(&skippedTimeouts, 1)
			res.TimedOut, res.Signaled, res.Exit = false, false, 1
			res.Stderr = []byte("unconfirmed timeout, skipped")
			return res
		}
		retryMu.Lock()
		defer retryMu.Unlock()
		res = fsx.Run(dir, limited(argv), env, nil, 4*procTimeout, false)
		if res.TimedOut {
			atomic.AddInt64(&confirmedHangs, 1)
		}
	}
	return res
}

// limited prefixes argv with an address-space limit so that a runaway
// evaluation is stopped without disturbing the machine.
func limited(argv []string) []string {
	return append([]string{"prlimit", "--as=6000000000"}, argv...)
}

func procEvent(tool string, argv []string, res fsx.RunResult, note string) []byte {
	return J(map[string]any{"ev": "Proc", "tool": tool, "argv": argv, "exit": res.Exit,
		"stdoutEmpty": len(res.Stdout) == 0, "stderrEmpty": len(bytes.TrimSpace(res.Stderr)) == 0,
		"timedOut": res.TimedOut, "signaled": res.Signaled, "panicked": res.Panicked, "note": note,
		"stderr": trunc(string(res.Stderr), 200)})
}

func trunc(s string, n int) string {
	if len(s) > n {
		return s[:n]
	}
	return s
}

// replayEvalCLI evaluates a model case through the real bkl binary (a crash
// of the evaluator must not take the harness down).
func replayEvalCLI(r *Run) func(v *evalVector) (bool, map[string]any) {
	return func(v *evalVector) (bool, map[string]any) {
		dir := filepath.Join(r.Dir, fmt.Sprintf("cli%d", atomic.AddInt64(&scratchSeq, 1)))
		os.MkdirAll(dir, 0o755)
		defer os.RemoveAll(dir)
		b, err := fsx.Encode("json", v.Docs)
		if err != nil {
			Fatal("encode: %v", err)
		}
		os.WriteFile(filepath.Join(dir, "d.json"), b, 0o644)
		res := runTool(dir, []string{filepath.Join(binDir(), "bkl"), "-f", "json", "d.json"}, envOf(v.Env))
		obs := map[string]any{"exit": res.Exit, "stdout": trunc(string(res.Stdout), 300), "stderr": trunc(string(res.Stderr), 300),
			"timedOut": res.TimedOut, "panicked": res.Panicked}
		if string(res.Stderr) == "skipped after three confirmed hangs" {
			return true, obs
		}
		if res.TimedOut || res.Signaled || res.Panicked {
			return false, obs
		}
		if res.Exit != 0 && (len(res.Stdout) != 0 || len(bytes.TrimSpace(res.Stderr)) == 0) {
			return false, obs
		}
		ok := res.Exit == 0
		if ok != v.OK {
			return false, obs
		}
		if !ok {
			return true, obs
		}
		outs, derr := fsx.DecodeJSONStream(res.Stdout)
		if derr != nil {
			return false, obs
		}
		return docsEqual(outs, v.Outs), obs
	}
}

// fuzzEntry is one entry of the repository's own fuzz corpus.
type fuzzEntry struct {
	name1, name2 string
	c1, c2       []byte
}

func parseFuzzEntry(path string) (fuzzEntry, bool) {
	f, err := os.Open(path)
	if err != nil {
		return fuzzEntry{}, false
	}
	defer f.Close()
	sc := bufio.NewScanner(f)
	sc.Buffer(make([]byte, 1<<20), 1<<24)
	var vals [][]byte
	for sc.Scan() {
		line := sc.Text()
		var lit string
		switch {
		case strings.HasPrefix(line, "string(") && strings.HasSuffix(line, ")"):
			lit = line[len("string(") : len(line)-1]
		case strings.HasPrefix(line, "[]byte(") && strings.HasSuffix(line, ")"):
			lit = line[len("[]byte(") : len(line)-1]
		default:
			continue
		}
		s, err := strconv.Unquote(lit)
		if err != nil {
			return fuzzEntry{}, false
		}
		vals = append(vals, []byte(s))
	}
	if len(vals) != 4 {
		return fuzzEntry{}, false
	}
	return fuzzEntry{string(vals[0]), string(vals[2]), vals[1], vals[3]}, true
}

func safeExt(name string) string {
	e := fsx.Ext(name)
	switch e {
	case "json", "jsonl", "toml":
		return e
	}
	return ""
}

// toolRuns runs all four tools on a directory holding a.<ext> (base layer)
// and a.b.<ext> (upper layer), whole pipeline through to output.
func toolRuns(dir, f1, f2 string, env map[string]string, note string) [][]byte {
	var evs [][]byte
	run := func(tool string, args ...string) {
		argv := append([]string{filepath.Join(binDir(), tool)}, args...)
		res := runTool(dir, argv, env)
		evs = append(evs, procEvent(tool, append([]string{tool}, args...), res, note))
	}
	top := f1
	if f2 != "" {
		top = f2
	}
	run("bkl", top)
	run("bkl", "-f", "json", top) // the JSON encoder can fail late (non-finite floats)
	run("bkl", "-f", "yaml", top)
	run("bkl", "-f", "toml", "-P", top)
	run("bklr", "-f", "json", top)
	if f2 != "" {
		run("bkld", "-f", "json", f1, f2)
		run("bkli", "-f", "json", f1, f2)
	} else {
		run("bkld", "-f", "json", f1, f1)
		run("bkli", "-f", "yaml", f1, f1)
	}
	// every event carries the input files, for replay
	files := map[string]any{}
	for _, f := range []string{f1, f2} {
		if f != "" {
			if b, err := os.ReadFile(filepath.Join(dir, f)); err == nil && len(b) < 4096 {
				files[f] = strconv.QuoteToASCII(string(b))
			}
		}
	}
	fb := J(files)
	for i := range evs {
		evs[i] = append(append(append([]byte{}, evs[i][:len(evs[i])-1]...), []byte(`,"files":`)...), append(append([]byte{}, fb...), '}')...)
	}
	return evs
}

// mutate: type-confuse directive arguments, truncate, flip bytes.
func mutate(rng *rand.Rand, b []byte) []byte {
	if len(b) == 0 {
		return b
	}
	out := append([]byte{}, b...)
	switch rng.Intn(4) {
	case 0:
		return out[:rng.Intn(len(out))]
	case 1:
		for i := 0; i < 1+rng.Intn(3); i++ {
			out[rng.Intn(len(out))] ^= byte(1 << uint(rng.Intn(8)))
		}
	case 2:
		i := rng.Intn(len(out))
		j := i + rng.Intn(len(out)-i)
		out = append(out[:i], append(append([]byte{}, out[i:j]...), out[i:]...)...)
	default:
		junk := []string{"{", "}", "[", "]", "\"", ":", ",", "\n", "$merge", "$repeat", "null", "1e999", "-", "=", "[[a]]"}
		i := rng.Intn(len(out))
		out = append(out[:i], append([]byte(junk[rng.Intn(len(junk))]), out[i:]...)...)
	}
	return out
}

// confuse replaces directive arguments by values of arbitrary types.
func confuse(g *gen.G, v any) any {
	switch x := v.(type) {
	case map[string]any:
		m := map[string]any{}
		for k, e := range x {
			if k == "$repeat" {
				// counts stay small: a legitimately huge output is not a hang
				if g.P(0.3) {
					m[k] = []any{g.N(4), "2", 1.5, true, map[string]any{"x": g.N(3), "y": "z"}, []any{1}}[g.N(6)]
				} else {
					m[k] = e
				}
			} else if strings.HasPrefix(k, "$") && g.P(0.3) {
				m[k] = g.Tree(1)
			} else {
				m[k] = confuse(g, e)
			}
		}
		if g.P(0.05) {
			m[g.Pick([]string{"$merge", "$replace", "$encode", "$decode", "$value", "$output", "$match", "$parent", "$delete"})] = g.Tree(1)
		}
		return m
	case []any:
		l := make([]any, len(x))
		for i, e := range x {
			l[i] = confuse(g, e)
		}
		return l
	}
	return v
}

// tame keeps generated inputs inside the property's bounds: $repeat counts
// stay small and no whole-document self-reference ($merge: []) is generated
// (two of those are the listed known finding and are probed separately).
func tame(v any) any {
	switch x := v.(type) {
	case map[string]any:
		for k, e := range x {
			switch k {
			case "$repeat":
				if n, ok := e.(int); ok && n > 5 {
					x[k] = n % 4
				} else if ok && n < -3 {
					x[k] = n%3 - 1 // negative counts stay negative (and small)
				}
				if m, ok := e.(map[string]any); ok {
					for kk, ee := range m {
						if n, ok := ee.(int); ok && n > 4 {
							m[kk] = n % 3
						} else if ok && n < -3 {
							m[kk] = n%3 - 1
						}
					}
				}
			case "$merge", "$replace":
				if l, ok := e.([]any); ok && len(l) == 0 {
					x[k] = []any{"t0"}
				} else {
					x[k] = tame(e)
				}
			default:
				x[k] = tame(e)
			}
		}
		return x
	case []any:
		for i, e := range x {
			x[i] = tame(e)
		}
		return x
	}
	return v
}

func C08(r *Run) {
	if !r.Thorough() {
		ShardSubset = 4 // a quarter of the 26^3 reference graphs per quick run, rotating with the seed
	}
	ModelFuel = 24 // the graphs nest at most 8 deep; a smaller guard makes the cyclic ones cheap for TLC
	st := modelEvalWith(r, "C08", 1, replayEvalCLI(r))
	ShardSubset, ModelFuel = 0, 64
	r.Logf("model done: %d reference graphs replayed through the CLI", st.Replayed)
	g := gen.New(r.Seed*472882027 + 8)
	rng := rand.New(rand.NewSource(r.Seed*7 + 8))
	var sessions []Sess
	var mu sync.Mutex
	var wg sync.WaitGroup
	sem := make(chan struct{}, Cores())
	submit := func(f func() [][]byte) {
		wg.Add(1)
		sem <- struct{}{}
		go func() {
			defer wg.Done()
			defer func() { <-sem }()
			evs := f()
			mu.Lock()
			for _, e := range evs {
				sessions = append(sessions, Sess{Lines: [][]byte{e}})
			}
			mu.Unlock()
		}()
	}
	newDir := func() string {
		d := filepath.Join(r.Dir, fmt.Sprintf("p%d", atomic.AddInt64(&scratchSeq, 1)))
		os.MkdirAll(d, 0o755)
		return d
	}
	// (i) the repository's own fuzz corpus, pushed through the whole pipeline
	corpus, _ := filepath.Glob(RepoDir() + "/testdata/fuzz/FuzzParser/*")
	nc := r.Pick(300, 9500)
	if nc > len(corpus) {
		nc = len(corpus)
	}
	off := int(r.Seed*131) % (len(corpus) + 1)
	corpusUsed := 0
	for i := 0; i < nc; i++ {
		fe, ok := parseFuzzEntry(corpus[(off+i*7)%len(corpus)])
		if !ok {
			continue
		}
		e1, e2 := safeExt(fe.name1), safeExt(fe.name2)
		if e1 == "" {
			continue
		}
		corpusUsed++
		fe2 := fe
		_ = fe2
		submit(func() [][]byte {
			d := newDir()
			defer os.RemoveAll(d)
			os.WriteFile(filepath.Join(d, "a."+e1), fe.c1, 0o644)
			f2 := ""
			if e2 != "" {
				f2 = "a.b." + e2
				os.WriteFile(filepath.Join(d, f2), fe.c2, 0o644)
			}
			return toolRuns(d, "a."+e1, f2, nil, "fuzz corpus")
		})
	}
	// (ii) the fixtures' own layer files
	fixtures, _ := filepath.Glob(RepoDir() + "/tests/*/a.b.*")
	for _, fx := range fixtures {
		fx := fx
		submit(func() [][]byte {
			dir := filepath.Dir(fx)
			base, _ := filepath.Glob(filepath.Join(dir, "a.[a-z]*"))
			if len(base) == 0 {
				return nil
			}
			return toolRuns(dir, filepath.Base(base[0]), filepath.Base(fx), map[string]string{"FOO": "test"}, "fixture "+filepath.Base(dir))
		})
	}
	// (iii) generated documents, type-confused, in three formats, then byte-mutated
	ng := r.Pick(400, 20000)
	for i := 0; i < ng; i++ {
		lower := tame(confuse(g, g.EvalDoc()))
		var upper any
		if g.P(0.7) {
			upper = tame(confuse(g, g.Patch(lower, 2)))
		}
		e1 := g.Pick([]string{"json", "yaml", "toml"})
		e2 := g.Pick([]string{"json", "yaml", "toml"})
		doMut := g.P(0.5)
		seed := rng.Int63()
		submit(func() [][]byte {
			lr := rand.New(rand.NewSource(seed))
			d := newDir()
			defer os.RemoveAll(d)
			b1, err := fsx.Encode(e1, []tv.T{tv.FromGo(lower)})
			if err != nil {
				e1 = "json"
				b1, _ = fsx.Encode(e1, []tv.T{tv.FromGo(lower)})
			}
			if doMut && e1 != "yaml" {
				b1 = mutate(lr, b1)
			}
			os.WriteFile(filepath.Join(d, "a."+e1), b1, 0o644)
			f2 := ""
			if upper != nil {
				b2, err := fsx.Encode(e2, []tv.T{tv.FromGo(upper)})
				if err != nil {
					e2 = "json"
					b2, _ = fsx.Encode(e2, []tv.T{tv.FromGo(upper)})
				}
				if doMut && e2 != "yaml" && lr.Intn(2) == 0 {
					b2 = mutate(lr, b2)
				}
				f2 = "a.b." + e2
				os.WriteFile(filepath.Join(d, f2), b2, 0o644)
			}
			return toolRuns(d, "a."+e1, f2, gen.Env, "generated")
		})
	}
	// (iv) raw byte strings offered as JSON / TOML
	nr := r.Pick(300, 10000)
	for i := 0; i < nr; i++ {
		n := rng.Intn(40)
		b := make([]byte, n)
		alphabet := []byte("{}[]\":,=.$ \n\tabc019-+eE#'\\\x00\xff")
		for j := range b {
			if rng.Intn(4) == 0 {
				b[j] = byte(rng.Intn(256))
			} else {
				b[j] = alphabet[rng.Intn(len(alphabet))]
			}
		}
		ext := []string{"json", "toml"}[rng.Intn(2)]
		submit(func() [][]byte {
			d := newDir()
			defer os.RemoveAll(d)
			os.WriteFile(filepath.Join(d, "a."+ext), b, 0o644)
			return toolRuns(d, "a."+ext, "", nil, "raw bytes")
		})
	}
	// (v) $parent graphs on up to three files (cycles included)
	for a := 0; a < 4; a++ {
		for b := 0; b < 4; b++ {
			for c := 0; c < 4; c++ {
				ps := []int{a, b, c}
				submit(func() [][]byte {
					d := newDir()
					defer os.RemoveAll(d)
					names := []string{"f0", "f1", "f2"}
					for i, p := range ps {
						m := map[string]any{"n": i}
						if p < 3 {
							m["$parent"] = names[p]
						}
						bs, _ := json.Marshal(m)
						os.WriteFile(filepath.Join(d, names[i]+".json"), bs, 0o644)
					}
					return toolRuns(d, "f0.json", "", nil, fmt.Sprintf("$parent graph %v", ps))
				})
			}
		}
	}
	// (v') cycles made of FILENAME parents only: a link whose target has a longer name
	// (app.yaml -> app.prod.live.yaml, whose filename parents lead back to app.yaml)
	for _, top := range []string{"app.yaml", "app.prod.yaml", "app.prod.live.yaml", "app.prod.live.x.yaml"} {
		top := top
		submit(func() [][]byte {
			d := newDir()
			defer os.RemoveAll(d)
			os.WriteFile(filepath.Join(d, "app.prod.live.yaml"), []byte("n: 2\n"), 0o644)
			os.WriteFile(filepath.Join(d, "app.prod.yaml"), []byte("n: 1\n"), 0o644)
			os.WriteFile(filepath.Join(d, "app.prod.live.x.yaml"), []byte("n: 3\n"), 0o644)
			os.Symlink("app.prod.live.yaml", filepath.Join(d, "app.yaml"))
			return toolRuns(d, top, "", nil, "filename-parent cycle through a symlink")
		})
	}
	// YAML alias cycles (a node that contains an alias to itself)
	for _, y := range []string{"a: &x\n  b: *x\n", "&r\n- *r\n", "a: &x\n  b: &y\n    c: *x\n    d: *y\n"} {
		y := y
		submit(func() [][]byte {
			d := newDir()
			defer os.RemoveAll(d)
			os.WriteFile(filepath.Join(d, "a.yaml"), []byte(y), 0o644)
			return toolRuns(d, "a.yaml", "", nil, "yaml alias cycle")
		})
	}
	// (vi) edge catalogue: every $repeat form with small negative / zero counts (alone, and
	// next to a positive count in either order), $encode / $decode with empty arguments
	edge := []any{}
	for _, c := range []int{-1, -3, 0, 1} {
		for _, c2 := range []int{-2, 0, 2} {
			edge = append(edge,
				map[string]any{"$repeat": map[string]any{"a": c, "b": c2}, "v": `$"{$repeat:a}/{$repeat:b}"`},
				map[string]any{"$repeat": map[string]any{"a": c2, "b": c}, "v": 1})
		}
		edge = append(edge,
			map[string]any{"$repeat": c, "v": "$repeat"},
			map[string]any{"$repeat": map[string]any{"x": c}, "v": "$repeat:x"},
			map[string]any{"l": []any{"a", map[string]any{"$repeat": c, "i": "$repeat"}, "z"}},
			map[string]any{"m": map[string]any{`$"k{$repeat}"`: map[string]any{"$repeat": c, "i": 1}}},
			[]any{map[string]any{"$repeat": c}, "$repeat"},
			[]any{"x", map[string]any{"$repeat": map[string]any{"p": c, "q": 2}}})
	}
	for _, a := range []string{"join:", "prefix:", "split:", "join", "flags:", "sha256:", "base64:", ":", ""} {
		edge = append(edge, map[string]any{"e": map[string]any{"$encode": a, "$value": []any{"", "x", ""}}},
			map[string]any{"e": map[string]any{"$decode": a, "$value": ""}})
	}
	// keys that evaluate to non-strings, self-referential templates, $decode shapes
	edge = append(edge,
		map[string]any{"$merge:a": 1, "a": 5},
		map[string]any{"l": []any{map[string]any{"$repeat": 2, "m": map[string]any{"$repeat": "v"}}}},
		map[string]any{"m": map[string]any{"$repeat": 2, "$repeat:x": 1}},
		map[string]any{"a": `$"{a}"`},
		map[string]any{"a": `$"{b}"`, "b": `$"<{a}>"`},
		map[string]any{"d": map[string]any{"$decode": "json", "$value": 5}},
		map[string]any{"d": map[string]any{"$decode": "json", "$value": "1", "x": 2}},
		map[string]any{"d": map[string]any{"$decode": "json", "$value": "1 2"}},
		map[string]any{"d": map[string]any{"$decode": "yaml", "$value": "a: 1\n---\nb: 2\n"}},
		map[string]any{"d": map[string]any{"$decode": "toml", "$value": "a = 1\n---\nb = 2\n"}},
		map[string]any{"d": map[string]any{"$decode": "json", "$value": ""}},
		map[string]any{"d": map[string]any{"$decode": "yaml", "$value": "a: &x\n  b: *x\n"}},
		map[string]any{"d": map[string]any{"$decode": "json", "$value": `{"$merge": "d"}`}},
		map[string]any{"d": map[string]any{"$decode": "json", "$value": `{"k": "$required"}`}})
	// the shortest strings that still look like a directive: prefix and suffix of a wrapper may overlap
	for _, t := range []string{`$"`, `$""`, `$`, `$$`, `$"{`, `$"}`, `$"{}"`, `$"{"`, "$env:", "$merge:", "$replace:", "$repeat:", `$"{$env:}"`, `$"{$repeat:}"`} {
		edge = append(edge, map[string]any{"v": t}, []any{t}, map[string]any{t: 1},
			map[string]any{"l": []any{map[string]any{"$repeat": 2, "v": t}}}, map[string]any{"a": t, "b": `$"{a}"`})
	}
	for i, doc := range edge {
		doc, i := doc, i
		submit(func() [][]byte {
			d := newDir()
			defer os.RemoveAll(d)
			bs, _ := json.Marshal(doc)
			os.WriteFile(filepath.Join(d, "a.json"), bs, 0o644)
			return toolRuns(d, "a.json", "", nil, fmt.Sprintf("edge catalogue %d", i))
		})
	}
	// ... and texts whose failure comes LATE, inside an encoder: a non-finite float in a later
	// document of a stream (nothing may reach stdout before the failure)
	for i, t := range []struct{ ext, text string }{
		{"toml", "a = 1\n---\nb = inf\n"}, {"toml", "a = 1\n---\nb = nan\n"}, {"toml", "x = [1.5, -inf]\n"},
		{"toml", "a = 1\n---\nb = 2\n---\nc = { d = nan }\n"}, {"yaml", "a: 1\n---\nb: !!float inf\n"}, {"yaml", "a: 1\n---\nb: .inf\n"},
		{"yaml", "a: 1\n---\nb: !!float nan\n"},
	} {
		t, i := t, i
		submit(func() [][]byte {
			d := newDir()
			defer os.RemoveAll(d)
			os.WriteFile(filepath.Join(d, "a."+t.ext), []byte(t.text), 0o644)
			return toolRuns(d, "a."+t.ext, "", nil, fmt.Sprintf("late encoder failure %d", i))
		})
	}
	r.Cov["edge_catalogue_documents"] = len(edge)
	// known findings, probed directly
	submit(func() [][]byte {
		d := newDir()
		defer os.RemoveAll(d)
		os.WriteFile(filepath.Join(d, "a.yaml"), []byte("x:\n  v: 1\ny:\n  $merge: []\n  own: 1\nz:\n  $merge: []\n  own: 1\n"), 0o644)
		res := fsx.Run(d, limited([]string{filepath.Join(binDir(), "bkl"), "a.yaml"}), nil, nil, procTimeout, false)
		return [][]byte{withKF(procEvent("bkl", []string{"bkl", "a.yaml"}, res, "two whole-document self-merges"), "c08-branching-cycle")}
	})
	wg.Wait()
	r.Logf("%d process runs recorded", len(sessions))
	r.Cov["fuzz_corpus_entries_used"] = corpusUsed
	r.Cov["process_runs"] = len(sessions)
	r.Cov["runs_skipped_after_three_confirmed_hangs"] = atomic.LoadInt64(&skippedTimeouts)
	r.Level = "model_checking"
	finishEvalFamily(r, "C08", st, sessions,
		[]string{"StrictCycleIsError", "AcyclicNeverReportsCycle", "ProtocolOK (per process)"},
		"model: all 17^3 reference graphs on three subtrees (map/list/string $merge, $replace, interpolation, self-merge; cycles included) evaluated through the real CLI; driver: the repository's fuzz corpus (JSON/TOML entries) and fixtures through the whole pipeline, generated directive-laden documents with type-confused arguments in three formats and byte mutations, raw byte strings as JSON/TOML, all 64 $parent graphs on three files, an edge catalogue ($repeat forms with negative / zero counts, $encode / $decode with empty arguments) - each through bkl (3 output formats), bklr, bkld and bkli under a 10 s timeout; TLC validates the termination protocol of every process")
}
