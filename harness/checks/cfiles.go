package checks

import (
	"crypto/sha1"
	"encoding/json"
	"fmt"
	"os"
	"path/filepath"
	"regexp"
	"strings"
	"sync"
	"sync/atomic"
	"time"

	"bklverif/fsx"
	"bklverif/gen"
	"bklverif/tlc"
	"bklverif/tv"
)

func binDir() string {
	if d := os.Getenv("BKLV_BIN"); d != "" {
		return d
	}
	return filepath.Join(Verif, "out", "bin", "setup")
}

type layout struct {
	Family string               `json:"family"`
	Tag    string               `json:"tag"`
	Fs     map[string]fsx.Entry `json:"fs"`
	Inputs []string             `json:"inputs"` // relative to /w
	Skip   bool                 `json:"skip"`
	Root   string               `json:"root"` // model path; "/" = none
	OK     bool                 `json:"ok"`
	Outs   []any                `json:"outs"`
	Reads  []string             `json:"reads"`
	Err    string               `json:"err"`
	Steps  []stepLabel          `json:"steps"`
}

// stepLabel is one reported step of the resolver: load <file id>,
// mergefile <file id>, mergedoc <document id>.
type stepLabel struct {
	Kind string `json:"kind"`
	ID   string `json:"id"`
}

var reLogLine = regexp.MustCompile(`^\d{4}/\d\d/\d\d \d\d:\d\d:\d\d \[(.*)\] (loading|merging)$`)
var reDocID = regexp.MustCompile(`^doc\d+$`)

// parseSteps turns the debug log of `bkl -v` into step labels with model
// paths (every |-separated path component is made absolute under /w).
func parseSteps(base string, stderr []byte) []stepLabel {
	out := []stepLabel{}
	for _, line := range strings.Split(string(stderr), "\n") {
		m := reLogLine.FindStringSubmatch(strings.TrimRight(line, "\r"))
		if m == nil {
			continue
		}
		comps := strings.Split(m[1], "|")
		isDoc := len(comps) > 1 && reDocID.MatchString(comps[len(comps)-1])
		n := len(comps)
		if isDoc {
			n--
		}
		for i := 0; i < n; i++ {
			p := comps[i]
			if strings.HasPrefix(p, "/") {
				p = strings.TrimPrefix(p, base)
			} else {
				p = filepath.Join("/w", p)
			}
			comps[i] = filepath.Clean(p)
		}
		kind := "load"
		if m[2] == "merging" {
			kind = "mergefile"
			if isDoc {
				kind = "mergedoc"
			}
		}
		out = append(out, stepLabel{kind, strings.Join(comps, "|")})
	}
	return out
}

var scratchSeq int64

// runLayout materialises the layout and runs the real bkl binary on it.
// trace: observe content reads with strace. mutate: rewrite ("rewrite") or
// delete ("delete") every file outside the root before running.
func runLayout(r *Run, l *layout, trace bool, mutate string) (ok bool, outs []any, reads []string, res fsx.RunResult, err error) {
	base := filepath.Join(r.Dir, fmt.Sprintf("fs%d", atomic.AddInt64(&scratchSeq, 1)))
	defer os.RemoveAll(base)
	fs := l.Fs
	if mutate != "" {
		fs = map[string]fsx.Entry{}
		for p, e := range l.Fs {
			inside := l.Root == "/" || p == l.Root || strings.HasPrefix(p, l.Root+"/")
			if inside {
				fs[p] = e
			} else if mutate == "rewrite" && e.Kind == "file" {
				fs[p] = fsx.Entry{Kind: "file", Docs: []tv.T{tv.FromGo(map[string]any{"order": []any{"REWRITTEN"}, "decoy": true})}}
			} else if mutate == "rewrite" {
				fs[p] = e
			}
		}
	}
	// a layer read from standard input: the model file system holds it under "<stdin>"
	var stdin []byte
	if e, has := fs["<stdin>"]; has {
		ext := "yaml"
		for _, in := range l.Inputs {
			if strings.TrimSuffix(filepath.Base(in), filepath.Ext(in)) == "-" {
				ext = fsx.Ext(in)
			}
		}
		stdin, err = fsx.Encode(ext, e.Docs)
		if err != nil {
			return
		}
		fs2 := map[string]fsx.Entry{}
		for p, x := range fs {
			if p != "<stdin>" {
				fs2[p] = x
			}
		}
		fs = fs2
	}
	if err = fsx.Materialize(base, fs); err != nil {
		return
	}
	cwd := filepath.Join(base, "w")
	os.MkdirAll(cwd, 0o755)
	argv := []string{filepath.Join(binDir(), "bkl"), "-v", "-f", "json"}
	if l.Skip {
		argv = append(argv, "-P")
	}
	if l.Root != "/" && l.Root != "" {
		rel, _ := filepath.Rel("/w", l.Root)
		// the same root under its different spellings (the empty string is the working directory)
		abs := filepath.Join(cwd, rel)
		spell := []string{rel, "./" + rel, rel + "/", abs}
		if rel == "." {
			spell = []string{".", "", "./", abs, ""}
		}
		argv = append(argv, "-r", spell[int(atomic.AddInt64(&rootSpellSeq, 1))%len(spell)])
	}
	argv = append(argv, l.Inputs...)
	res = fsx.Run(cwd, argv, nil, stdin, 20*time.Second, trace)
	res.Steps = nil
	for _, st := range parseSteps(base, res.Stderr) {
		res.Steps = append(res.Steps, [2]string{st.Kind, st.ID})
	}
	if res.TimedOut || res.Signaled || res.Panicked {
		return false, nil, nil, res, nil
	}
	if res.Exit != 0 {
		return false, nil, modelReads(base, res.Reads), res, nil
	}
	outs, derr := fsx.DecodeJSONStream(res.Stdout)
	if derr != nil {
		err = fmt.Errorf("cannot parse bkl output: %v", derr)
		return
	}
	return true, outs, modelReads(base, res.Reads), res, nil
}

// modelReads maps observed real paths back to model paths, keeping only
// paths inside the materialised tree.
func modelReads(base string, real []string) []string {
	out := []string{}
	rb, _ := filepath.EvalSymlinks(base)
	for _, p := range real {
		for _, b := range []string{base, rb} {
			if strings.HasPrefix(p, b+"/") {
				mp := strings.TrimPrefix(p, b)
				if !strings.HasPrefix(filepath.Base(mp), ".strace") {
					out = append(out, mp)
				}
				break
			}
		}
	}
	return out
}

func absInputs(l *layout) []string {
	out := make([]string, len(l.Inputs))
	for i, p := range l.Inputs {
		out[i] = filepath.Clean(filepath.Join("/w", p))
	}
	return out
}

// modelFiles runs MC_Files for a family and replays every layout on the
// real binary.
// FilesShardFraction > 1: only 1/FilesShardFraction of the layouts is explored
// (the universe is cut into nsh*fraction parts, nsh of them run, rotating with the seed).
var FilesShardFraction = 1

var rootSpellSeq int64

func modelFiles(r *Run, family string) modelStats {
	nsh := 4
	total := nsh * FilesShardFraction
	if FilesShardFraction > 1 {
		r.Cov["model_universe_fraction_explored"] = fmt.Sprintf("1/%d (rotating with the seed)", FilesShardFraction)
	}
	var st modelStats
	var mu sync.Mutex
	seen := map[[20]byte]bool{}
	tags := map[string]int{}
	skipped := 0
	sem := make(chan struct{}, Cores())
	var wgRun sync.WaitGroup
	var wg sync.WaitGroup
	for k := 0; k < nsh; k++ {
		sh := k + nsh*int(r.Seed%int64(FilesShardFraction))
		wg.Add(1)
		go func(sh int) {
			defer wg.Done()
			dir := filepath.Join(r.Dir, fmt.Sprintf("mc-files-%s-%d", family, sh))
			cfg := fmt.Sprintf("SPECIFICATION Spec\nCONSTANTS\n CharOrder <- AsciiOrder\n LowerSet <- AsciiLower\n MaxFuel = 64\n Family = \"%s\"\n Shard = %d\n NShards = %d\nINVARIANT TypeOK\nINVARIANT Inv\nCHECK_DEADLOCK FALSE\n", family, sh, total)
			res, err := tlc.RunModelCfg(dir, "MC_Files", cfg, 2, "4g", 60*time.Minute, func(js []byte) {
				h := sha1.Sum(js)
				mu.Lock()
				st.Vectors++
				dup := seen[h]
				seen[h] = true
				mu.Unlock()
				if dup {
					return
				}
				var l layout
				if err := json.Unmarshal(js, &l); err != nil {
					Fatal("bad layout from TLC: %v: %.300s", err, js)
				}
				jsc := append([]byte{}, js...)
				wgRun.Add(1)
				sem <- struct{}{}
				go func() {
					defer wgRun.Done()
					defer func() { <-sem }()
					why := replayLayout(r, &l, family == "C18")
					mu.Lock()
					defer mu.Unlock()
					if why == "skip" {
						skipped++
						return
					}
					st.Replayed++
					tags[l.Tag]++
					if tags[l.Tag] == 1 {
						r.Sample(map[string]any{"layout": json.RawMessage(jsc)})
					}
					if why != "" {
						r.Violate(fmt.Sprintf("layout from the bounded model (%s): %s", l.Tag, why),
							map[string]any{"kind": "layout", "vector": json.RawMessage(jsc)})
					}
				}()
			})
			if err != nil {
				Fatal("MC_Files(%s): %v", family, err)
			}
			if res.InvariantBad {
				Fatal("MC_Files(%s): the specification violates its own law: %s", family, res.Output)
			}
			mu.Lock()
			st.States += res.Generated
			st.Distinct += res.Distinct
			st.Cmd = res.Cmd
			mu.Unlock()
		}(sh)
	}
	wg.Wait()
	wgRun.Wait()
	if st.Replayed < 20 {
		Fatal("MC_Files(%s) produced only %d layouts", family, st.Replayed)
	}
	r.Cov["model_cases_by_kind"] = tags
	r.Cov["model_layouts_skipped_unrepresentable"] = skipped
	return st
}

// replayLayout: "" = agrees, "skip" = not representable, else the reason.
func replayLayout(r *Run, l *layout, confined bool) string {
	ok, outs, reads, res, err := runLayout(r, l, confined, "")
	if err == fsx.ErrUnrepresentable {
		return "skip"
	}
	if err != nil {
		Fatal("replay: %v", err)
	}
	if res.TimedOut || res.Signaled || res.Panicked {
		return fmt.Sprintf("bkl did not terminate properly (timeout=%v signal=%v panic=%v): %.200s", res.TimedOut, res.Signaled, res.Panicked, res.Stderr)
	}
	if ok != l.OK {
		return fmt.Sprintf("specification ok=%v (%s), bkl exit=%d: %.200s", l.OK, l.Err, res.Exit, res.Stderr)
	}
	if ok && !docsEqual(outs, jsonOuts(l.Outs)) {
		return fmt.Sprintf("outputs differ: bkl printed %.300s", res.Stdout)
	}
	// the step log of the real program against the small-step resolver
	if len(l.Steps) != len(res.Steps) {
		return fmt.Sprintf("the program reported %d steps, the small-step specification takes %d: %v vs %v", len(res.Steps), len(l.Steps), res.Steps, l.Steps)
	}
	for i, st := range l.Steps {
		if res.Steps[i] != [2]string{st.Kind, st.ID} {
			return fmt.Sprintf("step %d: the program reported %v, the specification's step is %v", i, res.Steps[i], st)
		}
	}
	if confined {
		for _, p := range reads {
			inside := l.Root == "/" || p == l.Root || strings.HasPrefix(p, l.Root+"/")
			if !inside {
				return "content of " + p + " (outside the root) was read"
			}
		}
		// non-interference: rewrite, then delete, everything outside the root
		for _, mut := range []string{"rewrite", "delete"} {
			ok2, outs2, _, res2, err2 := runLayout(r, l, false, mut)
			if err2 != nil {
				Fatal("replay: %v", err2)
			}
			if ok2 != ok || (ok && !docsEqual(outs, outs2)) {
				return fmt.Sprintf("result depends on files outside the root (%s): exit %d -> %d, %.200s", mut, res.Exit, res2.Exit, res2.Stdout)
			}
		}
	}
	return ""
}

// ---------------------------------------------------------------------------
// random layouts (driver direction)

func layerDoc(name string, extra map[string]any) tv.T {
	m := map[string]any{"order": []any{name}}
	for k, v := range extra {
		m[k] = v
	}
	return tv.FromGo(m)
}

var extPool = []string{"yaml", "json", "toml", "yml", "jsonl"}

// randomLayout: 1-6 layer files, chain depth up to 4, any mix of extensions,
// $parent forms, symlinks, several inputs, -P.
func randomLayout(g *gen.G) *layout {
	l := &layout{Fs: map[string]fsx.Entry{}, Root: "/"}
	names := map[string]bool{}
	segs := []string{"a", "b", "c", "svc", "x1", "prod", "y-2"}
	addChain := func() string {
		depth := 1 + g.N(4)
		name := ""
		for i := 0; i < depth; i++ {
			if i > 0 {
				name += "."
			}
			name += g.Pick(segs)
			names[name] = true
		}
		return name
	}
	tops := []string{addChain()}
	if g.P(0.5) {
		tops = append(tops, addChain())
	}
	all := []string{}
	for n := range names {
		all = append(all, n)
	}
	sortStrings(all)
	extOf := map[string]string{}
	for _, n := range all {
		extOf[n] = g.Pick(extPool)
	}
	parentOf := map[string]any{}
	for _, n := range all {
		if g.P(0.25) {
			switch g.N(8) {
			case 0:
				parentOf[n] = false
			case 1:
				if extOf[n] != "toml" {
					parentOf[n] = nil
				} else {
					parentOf[n] = false
				}
			case 2, 3:
				parentOf[n] = g.Pick(all)
			case 4:
				parentOf[n] = []any{g.Pick(all), g.Pick(all)}
				if g.P(0.3) {
					parentOf[n] = []any{g.Pick(all), "missing.layer"}
				}
			case 5:
				parentOf[n] = g.Pick(segs) + ".*"
			case 6:
				parentOf[n] = "missing.layer"
			default:
				parentOf[n] = g.Pick(all)
			}
			// a layer naming itself (directly) as parent is a cycle: C08's business
			if s, ok := parentOf[n].(string); ok && (s == n || strings.HasSuffix(s, "*")) {
				if s == n {
					delete(parentOf, n)
				}
			}
		}
	}
	if hasParentCycle(all, parentOf) {
		parentOf = map[string]any{}
	}
	drop := ""
	if g.P(0.08) && len(all) > 1 {
		drop = g.Pick(all)
	}
	for _, n := range all {
		if n == drop {
			continue
		}
		extra := map[string]any{}
		if pv, ok := parentOf[n]; ok {
			extra["$parent"] = pv
		}
		docs := []tv.T{layerDoc(n, extra)}
		if g.P(0.15) {
			docs = []tv.T{layerDoc(n, nil), layerDoc(n+"#2", extra)}
		}
		l.Fs["/w/"+n+"."+extOf[n]] = fsx.Entry{Kind: "file", Docs: docs}
	}
	for _, t := range tops {
		ext := extOf[t]
		if g.P(0.2) {
			ext = g.Pick(extPool) // virtual extension
		}
		l.Inputs = append(l.Inputs, t+"."+ext)
	}
	if g.P(0.2) {
		// a symlinked input
		t := g.Pick(all)
		if t != drop {
			ln := "ln" + fmt.Sprint(g.N(3)) + ".alias"
			// the link keeps the target's extension (the format is taken from the name)
			l.Fs["/w/"+ln+"."+extOf[t]] = fsx.Entry{Kind: "symlink", Target: t + "." + extOf[t]}
			l.Inputs[0] = ln + "." + extOf[t]
		}
	}
	l.Skip = g.P(0.15)
	if g.P(0.1) {
		// a further layer from standard input
		extra := map[string]any{}
		if g.P(0.3) {
			extra["$parent"] = g.Pick(all)
		}
		l.Fs["<stdin>"] = fsx.Entry{Kind: "file", Docs: []tv.T{layerDoc("stdin", extra)}}
		l.Inputs = append(l.Inputs, "./-."+g.Pick([]string{"yaml", "json"}))
		return l
	}
	if g.P(0.15) && drop == "" {
		// the same layout once more in two directories: independent chains with equal file names
		two := &layout{Fs: map[string]fsx.Entry{}, Root: "/", Skip: l.Skip}
		for _, dir := range []string{"dev", "prod"} {
			for p, e := range l.Fs {
				np := "/w/" + dir + strings.TrimPrefix(p, "/w")
				if e.Kind == "file" {
					docs := make([]tv.T, len(e.Docs))
					for i, d := range e.Docs {
						m := tv.ToGo(d).(map[string]any)
						if o, ok := m["order"].([]any); ok && len(o) == 1 {
							m["order"] = []any{dir + "/" + o[0].(string)}
						}
						docs[i] = tv.FromGo(m)
					}
					two.Fs[np] = fsx.Entry{Kind: "file", Docs: docs}
				} else {
					two.Fs[np] = e
				}
			}
			for _, in := range l.Inputs {
				two.Inputs = append(two.Inputs, dir+"/"+in)
			}
		}
		return two
	}
	return l
}

func sortStrings(s []string) {
	for i := 1; i < len(s); i++ {
		for j := i; j > 0 && s[j] < s[j-1]; j-- {
			s[j], s[j-1] = s[j-1], s[j]
		}
	}
}

// hasParentCycle: conservative cycle test over $parent strings/lists and
// filename parents.
func hasParentCycle(all []string, parentOf map[string]any) bool {
	edges := map[string][]string{}
	for _, n := range all {
		var ps []string
		if pv, ok := parentOf[n]; ok {
			switch x := pv.(type) {
			case string:
				if strings.HasSuffix(x, ".*") {
					pre := strings.TrimSuffix(x, "*")
					for _, m := range all {
						if strings.HasPrefix(m, pre) && !strings.Contains(strings.TrimPrefix(m, pre), ".") {
							ps = append(ps, m)
						}
					}
				} else {
					ps = append(ps, x)
				}
			case []any:
				for _, e := range x {
					ps = append(ps, e.(string))
				}
			}
		} else if i := strings.LastIndex(n, "."); i >= 0 {
			ps = append(ps, n[:i])
		}
		edges[n] = ps
	}
	state := map[string]int{}
	var visit func(n string) bool
	visit = func(n string) bool {
		if state[n] == 1 {
			return true
		}
		if state[n] == 2 {
			return false
		}
		state[n] = 1
		for _, m := range edges[n] {
			if visit(m) {
				return true
			}
		}
		state[n] = 2
		return false
	}
	for _, n := range all {
		if visit(n) {
			return true
		}
	}
	return false
}

// runSession is runEvent plus the step log of the run as RBegin / RStep /
// REnd events, validated against the small-step resolver.
func runSession(r *Run, l *layout, trace bool) (Sess, bool) {
	ev, steps, end, ok := runEventSteps(r, l, trace)
	if !ok {
		return Sess{}, false
	}
	lines := [][]byte{ev}
	lines = append(lines, steps...)
	lines = append(lines, end)
	return Sess{Lines: lines}, true
}

func runEvent(r *Run, l *layout, trace bool) ([]byte, bool) {
	ev, _, _, ok := runEventSteps(r, l, trace)
	return ev, ok
}

func runEventSteps(r *Run, l *layout, trace bool) ([]byte, [][]byte, []byte, bool) {
	ok, outs, reads, res, err := runLayout(r, l, trace, "")
	if err == fsx.ErrUnrepresentable {
		return nil, nil, nil, false
	}
	if err != nil {
		Fatal("driver: %v", err)
	}
	if outs == nil {
		outs = []any{}
	}
	fs := map[string]any{}
	for p, e := range l.Fs {
		switch e.Kind {
		case "file":
			ds := make([]any, len(e.Docs))
			for i, d := range e.Docs {
				ds[i] = d
			}
			fs[p] = map[string]any{"kind": "file", "docs": ds}
			if e.Raw != nil {
				fs[p].(map[string]any)["raw"] = string(e.Raw) // the exact text (a style variant), for replays
			}
		case "symlink":
			fs[p] = map[string]any{"kind": "symlink", "target": e.Target}
		default:
			fs[p] = map[string]any{"kind": "other"}
		}
	}
	ev := map[string]any{"ev": "Run", "fs": fs, "inputs": absInputs(l), "skip": l.Skip, "root": l.Root,
		"ok": ok, "outs": outs, "exit": res.Exit}
	if trace && ok {
		ev["reads"] = reads
	}
	if res.TimedOut || res.Signaled || res.Panicked {
		ev["crashed"] = true
	}
	steps := [][]byte{J(map[string]any{"ev": "RBegin", "fs": fs, "inputs": absInputs(l), "skip": l.Skip, "root": l.Root})}
	for _, st := range res.Steps {
		steps = append(steps, J(map[string]any{"ev": "RStep", "kind": st[0], "id": st[1]}))
	}
	return J(ev), steps, J(map[string]any{"ev": "REnd", "ok": ok, "outs": outs}), true
}

func C03(r *Run) {
	st := modelFiles(r, "C03")
	g := gen.New(r.Seed*179424673 + 3)
	n := r.Pick(1200, 25000)
	sessions := make([]Sess, 0, n)
	var mu sync.Mutex
	var wg sync.WaitGroup
	sem := make(chan struct{}, Cores())
	layouts := make([]*layout, n)
	for i := range layouts {
		layouts[i] = randomLayout(g)
	}
	for _, l := range layouts {
		wg.Add(1)
		sem <- struct{}{}
		go func(l *layout) {
			defer wg.Done()
			defer func() { <-sem }()
			sess, ok := runSession(r, l, false)
			if !ok {
				return
			}
			mu.Lock()
			sessions = append(sessions, sess)
			mu.Unlock()
		}(l)
	}
	wg.Wait()
	finishEvalFamily(r, "C03", st, sessions,
		[]string{"BaseFirst", "ParentEqFilename", "MissingIsError", "SkipParents", "Diamond", "SymlinkInheritsFromTarget", "DirectiveBeatsSymlink"},
		"model: filename chains of depth 1-4 under every rotation of 5 extensions, virtual input extensions, every missing layer, the same chains written with $parent, 15 $parent forms, $parent in the second document, symlinks, several inputs with and without -P, diamonds, bad inputs - each materialised and run through the real bkl binary; driver: random layouts of 1-8 layer files (two chains, depth <= 4, mixed extensions, $parent string/list/wildcard/false/null/missing, two-document files, symlinked and virtual inputs, -P) run through the real binary and validated against RunLayers")
}

// jsonOuts is what a JSON reader sees of documents bkl printed as JSON: Go prints
// the double 3.0 as 3, so a whole-valued double arrives as an integer.
func jsonOuts(docs []any) []any {
	var norm func(t any) any
	norm = func(t any) any {
		tt, ok := t.([]any)
		if !ok || len(tt) != 2 {
			return t
		}
		switch tt[0] {
		case "f":
			if p, ok := tt[1].(string); ok && wholeDigits.MatchString(p) {
				return []any{"i", p}
			}
		case "m":
			if m, ok := tt[1].(map[string]any); ok {
				out := map[string]any{}
				for k, v := range m {
					out[k] = norm(v)
				}
				return []any{"m", out}
			}
		case "l":
			if l, ok := tt[1].([]any); ok {
				out := make([]any, len(l))
				for i, v := range l {
					out[i] = norm(v)
				}
				return []any{"l", out}
			}
		}
		return t
	}
	out := make([]any, len(docs))
	for i, d := range docs {
		out[i] = norm(d)
	}
	return out
}

var wholeDigits = regexp.MustCompile(`^-?[0-9]+$`)
