package checks

import (
	"crypto/sha256"
	"encoding/base64"
	"encoding/hex"
	"fmt"
	"strings"
	"sync"

	"bklverif/gen"
	"bklverif/real"
	"bklverif/tv"
)

var encStructural = []string{"join", "join:,", "join: ", "join:%d", "prefix:--", "prefix:x=", "prefix:%", "prefix:q=%20s", "tolist:%v", "flatten", "tolist:=", "tolist::", "values", "flags"}
var encMalformed = []string{"join:a:b", "prefix", "prefix:a:b", "flatten:x", "tolist", "tolist:a:b", "values:x", "base64:x", "sha256:1", "yaml:x", "bogus", ""}
var encCodecs = []string{"base64", "sha256", "json", "yaml", "toml", "json-pretty", "yml", "jsonl"}

// encValue: scalar values, flat and nested maps and lists with list-valued
// and empty-string entries; $-free (DESIGN.md Appendix B).
// wideValues: the next generated value is in the large regime (long lists, many keys)
var wideValues = false

func encValue(g *gen.G, d int) any {
	sc := func() any {
		if g.P(0.06) {
			// escaped dollars travel through the encoders untouched and are unescaped ONCE, at the end
			return []any{"$$$$x", "a$$$$b", "$$x", "cost: $$5"}[g.N(4)]
		}
		return []any{"abc", "", 42, 1.5, true, "a b", "x=y", -7, "é", false, 0.1}[g.N(11)]
	}
	if d <= 0 || g.P(0.3) {
		return sc()
	}
	wide := wideValues && d >= 2
	if g.P(0.5) {
		m := map[string]any{}
		nk := g.N(4)
		if wide {
			nk = 10 + g.N(25)
		}
		for i := nk; i > 0; i-- {
			k := g.Pick([]string{"a", "b", "k", "opt", "e"})
			if g.P(0.04) {
				k = g.Pick([]string{"$$key", "$$$$k"})
			}
			if wide {
				k = fmt.Sprintf("%s%02d", k, g.N(40))
			}
			switch g.N(4) {
			case 0:
				m[k] = []any{sc(), sc()}
			case 1:
				m[k] = ""
			case 2:
				if d > 1 {
					m[k] = encValue(g, d-1)
					break
				}
				fallthrough
			default:
				m[k] = sc()
			}
		}
		return m
	}
	l := []any{}
	nl := g.N(4)
	if wide {
		nl = 12 + g.N(40)
	}
	for i := nl; i > 0; i-- {
		if g.P(0.4) {
			l = append(l, encValue(g, d-1))
		} else {
			l = append(l, sc())
		}
	}
	return l
}

func C14(r *Run) {
	var sessions []Sess
	var mu sync.Mutex
	needCases := 0
	st := modelEvalWith(r, "C14", r.Pick(2, 3), func(v *evalVector) (bool, map[string]any) {
		if v.Err == "need" {
			// the case needs a byte-level codec: it goes through the trace
			// direction, where the environment supplies the value
			raw := make([]any, len(v.Docs))
			for i, d := range v.Docs {
				raw[i] = tv.ToGo(d)
			}
			ev := evalEvent(raw, nil, nil, nil, "model case with a codec")
			mu.Lock()
			needCases++
			sessions = append(sessions, Sess{Lines: [][]byte{ev}})
			mu.Unlock()
			return true, nil
		}
		return replayEval(v)
	})
	r.Cov["model_cases_sent_to_trace_validation_for_codecs"] = needCases
	g := gen.New(r.Seed*553105253 + 14)
	n := r.Pick(1500, 30000)
	for i := 0; i < n; i++ {
		wideValues = i%15 == 14 // every 15th value in the large regime
		v := encValue(g, 2)
		switch g.N(5) {
		case 0, 1: // a random stack of up to three transforms
			k := 1 + g.N(3)
			st := make([]any, k)
			for j := range st {
				switch r := g.N(10); {
				case r < 6:
					st[j] = g.Pick(encStructural)
				case r < 9:
					st[j] = g.Pick(encCodecs)
				default:
					st[j] = g.Pick(encMalformed)
				}
			}
			var arg any = st
			if k == 1 {
				arg = st[0]
			}
			var doc any
			switch vv := v.(type) {
			case map[string]any:
				if g.P(0.5) {
					m := gen.Clone(vv).(map[string]any)
					m["$encode"] = arg
					doc = map[string]any{"out": m}
				}
			case []any:
				if g.P(0.5) {
					doc = map[string]any{"out": append([]any{map[string]any{"$encode": arg}}, vv...)}
				}
			}
			if doc == nil {
				doc = map[string]any{"out": map[string]any{"$encode": arg, "$value": v}}
			}
			sessions = append(sessions, Sess{Lines: [][]byte{evalEvent([]any{doc}, nil, nil, nil, "stack")}})
		case 2: // malformed arguments are errors
			arg := []any{g.Pick(encMalformed), 1, true, map[string]any{"x": 1}, []any{"join", 2}, []any{g.Pick(encStructural), g.Pick(encMalformed)}}[g.N(6)]
			doc := map[string]any{"out": map[string]any{"$encode": arg, "$value": []any{"a", "b"}}}
			sessions = append(sessions, Sess{Lines: [][]byte{evalEvent([]any{doc}, nil, "error", nil, "malformed")}})
		default: // $decode inverts $encode of the same format, over two chained evaluations
			f := g.Pick([]string{"json", "yaml", "toml", "yml", "jsonl", "json-pretty"})
			val := v
			if hasDollar(val) {
				// every evaluation unescapes "$$" once, so the two-evaluation inverse holds for
				// $-free values only; escaped dollars are covered by the single-evaluation cases
				val = mapStrings(val, func(x string) string { return strings.ReplaceAll(x, "$", "S") })
			}
			if f == "toml" {
				m, ok := val.(map[string]any)
				if !ok {
					m = map[string]any{"v": val}
				}
				val = m
			}
			if val == nil {
				val = "x"
			}
			enc := map[string]any{"out": map[string]any{"$encode": f, "$value": val}}
			o, outs := real.EvalStream([]tv.T{tv.FromGo(enc)}, nil)
			lines := [][]byte{evalEvent([]any{enc}, nil, nil, nil, "encode")}
			if o.OK && len(outs) == 1 {
				if om, ok := tv.ToGo(outs[0]).(map[string]any); ok {
					if text, ok := om["out"].(string); ok {
						dec := map[string]any{"back": map[string]any{"$decode": f, "$value": text}}
						lines = append(lines, evalEvent([]any{dec}, nil, tagged(map[string]any{"back": val}), nil, "decode inverts encode ("+f+")"))
						// the same text decoded and re-encoded in ONE map: $value, $decode and $encode side by side
						var st any = g.Pick(encStructural)
						switch g.N(4) {
						case 0:
							st = []any{g.Pick(encStructural), g.Pick(encCodecs)}
						case 1:
							st = g.Pick(encCodecs)
						}
						pipe := map[string]any{"piped": map[string]any{"$value": text, "$decode": f, "$encode": st}}
						lines = append(lines, evalEvent([]any{pipe}, nil, nil, nil, "decode and encode side by side"))
					}
				}
			}
			sessions = append(sessions, Sess{Lines: lines})
		}
	}
	// environment values reach a byte-level codec exactly as they are, "$" characters included
	// characters that some JSON encoders escape and others do not
	for _, f := range []string{"json", "json-pretty", "jsonl", "yaml"} {
		doc := map[string]any{"out": map[string]any{"$encode": f, "$value": map[string]any{"url": "http://h/?a=1&b=2", "cmp": "a<b>c", "k&<>": []any{"&&", "</script>"}}}}
		sessions = append(sessions, Sess{Lines: [][]byte{evalEvent([]any{doc}, nil, nil, nil, "characters an encoder may escape")}})
	}
	for _, ev := range []string{"a$b", "pa$$word", "x$", "plain", "a $b c$"} {
		env := map[string]string{"BKLV_V1": ev}
		sum := sha256.Sum256([]byte(ev))
		for _, c := range []struct {
			arg  any
			want string
		}{{"base64", base64.StdEncoding.EncodeToString([]byte(ev))}, {"sha256", hex.EncodeToString(sum[:])},
			{[]any{"join:+", "base64"}, base64.StdEncoding.EncodeToString([]byte(ev + "+" + ev))}} {
			var val any = "$env:BKLV_V1"
			if _, isList := c.arg.([]any); isList {
				val = []any{"$env:BKLV_V1", `$"{$env:BKLV_V1}"`}
			}
			doc := map[string]any{"out": map[string]any{"$encode": c.arg, "$value": val}}
			sessions = append(sessions, Sess{Lines: [][]byte{evalEvent([]any{doc}, env, tagged(map[string]any{"out": c.want}), nil, "environment value under a codec")}})
		}
	}
	r.Logf("model C14: %d cases replayed (%d through the codec path); %d driver sessions", st.Replayed, needCases, len(sessions))
	res, answered := r.ValidateWithCodecs("C14", sessions)
	known := KnownFor(r.ID)
	_ = known
	for _, b := range res.Bad {
		evs := Lines(sessions[b.Session])
		r.Violate(fmt.Sprintf("recorded evaluation: %s", b.Why), map[string]any{"kind": "trace", "events": evs, "event": b.Event})
	}
	if len(sessions) > 0 {
		r.Sample(map[string]any{"driver_event": Lines(sessions[len(sessions)/2])})
	}
	r.modelCov(st, []string{"StackIsLeftFold", "MalformedIsError", "FlagsIsTolistThenPrefix", "values/join/prefix/flatten laws"})
	r.Cov["codec_values_supplied_by_independent_implementations"] = answered
	r.Cov["traces_validated_against_impl"] = len(sessions)
	r.Cov["trace_events"] = res.Events
	r.Cov["trace_events_compared"] = res.Checked
	r.Cov["trace_events_unmodelled"] = res.Undef
	r.Cov["evaluations"] = len(sessions) + int(st.Replayed)
	r.Cov["distinct_nontrivial"] = len(sessions)
	r.Cov["rule"] = "model: 16 values x every single transform (10 structural, 12 malformed, 5 codecs) and stacks of 2 (3 in the deeper bound), in $value / map-host / list-host form, bad argument types; driver: random values with random stacks of up to 3 transforms (codecs included), malformed arguments, and the inverse law over two chained evaluations for six format names; base64 / sha256 / format texts are supplied on request of the specification by crypto/sha256, encoding/base64, the independent decoders (dec:*) and, for enc:*, bkl's public encoder checked by the independent decoder (Codec events)"
	r.Cov["checker_cmd"] = first(res.Cmds)
}

func hasDollar(v any) bool {
	found := false
	mapStrings(v, func(x string) string {
		if strings.Contains(x, "$") {
			found = true
		}
		return x
	})
	return found
}
