package checks

import (
	"crypto/sha256"
	"encoding/hex"
	"encoding/json"
	"fmt"
	"math"
	"math/rand"
	"os"
	"os/exec"
	"path/filepath"
	"strings"
	"sync"
	"sync/atomic"

	"bklverif/fsx"
	"bklverif/gen"
	"bklverif/real"
	"bklverif/tv"
)

// detInput is one evaluation input: a stream of merged documents.
type detInput struct {
	Key  string `json:"key"`
	Docs []tv.T `json:"docs"`
}

func sha(b []byte) string {
	h := sha256.Sum256(b)
	return hex.EncodeToString(h[:8])
}

// evalBytes evaluates the stream in a fresh Parser of this process and
// returns the status and a digest of the bytes in two formats.
func evalBytes(in *detInput) (bool, string) {
	s := real.NewSess()
	for i, d := range in.Docs {
		if o := s.MergeDocument(fmt.Sprintf("d%d", i), nil, d); !o.OK {
			return false, "merge:" + o.Class
		}
	}
	o1, b1 := s.Output("json")
	if !o1.OK {
		return false, ""
	}
	o2, b2 := s.Output("yaml")
	if !o2.OK {
		return false, ""
	}
	return true, sha(b1) + sha(b2)
}

// RaceWorker (bklverif race <file>): evaluates every input from 16
// goroutines at once; built with -race. Prints {key: [[ok, digest]...]}.
func RaceWorker(path string) {
	b, err := os.ReadFile(path)
	if err != nil {
		fmt.Fprintln(os.Stderr, err)
		os.Exit(2)
	}
	var ins []detInput
	if err := json.Unmarshal(b, &ins); err != nil {
		fmt.Fprintln(os.Stderr, err)
		os.Exit(2)
	}
	for k, v := range gen.Env {
		os.Setenv(k, v)
	}
	type res struct {
		OK  bool   `json:"ok"`
		Sha string `json:"sha"`
	}
	out := map[string][]res{}
	var mu sync.Mutex
	var wg sync.WaitGroup
	for w := 0; w < 16; w++ {
		wg.Add(1)
		go func(w int) {
			defer wg.Done()
			rng := rand.New(rand.NewSource(int64(w)))
			for _, i := range rng.Perm(len(ins)) {
				ok, s := evalBytes(&ins[i])
				mu.Lock()
				out[ins[i].Key] = append(out[ins[i].Key], res{ok, s})
				mu.Unlock()
			}
		}(w)
	}
	wg.Wait()
	json.NewEncoder(os.Stdout).Encode(out)
}

func detDocs(g *gen.G) []any {
	if g.P(0.04) {
		// an output that fails LATE, inside the JSON encoder (a non-finite float in a later
		// document): whatever such a failure leaves behind must not reach other evaluations
		return []any{map[string]any{"name": "first", "port": 1}, map[string]any{"name": "second", "ratio": math.Inf(1 - 2*g.N(2))}}
	}
	if g.P(0.06) {
		// the LARGE regime: many documents in one stream, or dozens of selected subtrees
		// under one map (several per key) - sizes at which an implementation may switch
		// to a parallel or an unstable algorithm
		if g.P(0.5) {
			n := 16 + g.N(30)
			ds := []any{}
			for i := 0; i < n; i++ {
				ds = append(ds, map[string]any{"n": i, "pad": g.Pick(g.Strs), "sub": map[string]any{"k": g.N(5)}})
			}
			return ds
		}
		m := map[string]any{}
		for _, k := range []string{"alpha", "bravo", "charlie", "delta", "echo"} {
			mm := map[string]any{}
			for j := 0; j < 4+g.N(4); j++ {
				mm[fmt.Sprintf("s%d", j)] = map[string]any{"$output": true, "id": fmt.Sprintf("%s-%d", k, j)}
			}
			m[k] = mm
		}
		return []any{m}
	}
	if g.P(0.08) {
		// a wide map with escaped dollars in key names and, below them, in values and keys:
		// the unescaping is one pass, whatever order the map is walked in
		m := map[string]any{}
		for i := 0; i < 9+g.N(8); i++ {
			m[fmt.Sprintf("k%02d", i)] = g.N(5)
		}
		m["$$defs"] = map[string]any{"$$$$ref": "#/x", "shell": "echo $$$$ > pidfile", "list": []any{"$$$$", "a$$$$b"}}
		m["$$zz"] = map[string]any{"$$$$": 1}
		return []any{m}
	}
	if g.P(0.06) {
		// sibling references that feed each other (a takes from b, b from c) with local keys that
		// the far end deletes or equals: the order in which the siblings are resolved is the key order
		n1 := g.Pick([]string{"admin", "zadmin", "aaa"})
		if g.P(0.5) {
			return []any{map[string]any{n1: map[string]any{"$merge": "api", "debug": true},
				"api":      map[string]any{"$output": true, "$merge": "defaults", "debug": false, "port": 80},
				"defaults": map[string]any{"debug": "$delete"}}}
		}
		return []any{map[string]any{n1: map[string]any{"$merge": "api", "port": 8080},
			"api":      map[string]any{"$merge": "defaults", "port": 80},
			"defaults": map[string]any{"port": 8080}}}
	}
	switch g.N(9) {
	case 0: // a wide map through $encode transforms that iterate maps
		m := map[string]any{}
		for i := 0; i < 8+g.N(6); i++ {
			m[fmt.Sprintf("k%02d", g.N(40))] = g.N(5)
		}
		return []any{map[string]any{"flags": map[string]any{"$encode": "tolist:=", "$value": gen.Clone(m)},
			"vals": map[string]any{"$encode": "values", "$value": gen.Clone(m)}, "wide": m}}
	case 1: // computed keys colliding with literal siblings
		return []any{map[string]any{"name": "alpha", `$"{name}-cfg"`: map[string]any{"from": "computed"}, "alpha-cfg": map[string]any{"from": "literal"},
			"nodes": map[string]any{`$"node{$repeat}"`: map[string]any{"$repeat": 3, "role": "worker"}, "node1": map[string]any{"role": "primary"}}}}
	case 2: // many outputs
		m := map[string]any{}
		for i := 0; i < 6; i++ {
			m[fmt.Sprintf("o%d", g.N(20))] = map[string]any{"$output": true, "i": i, "sub": map[string]any{"$output": g.P(0.5), "j": i}}
		}
		return []any{m, []any{map[string]any{"$output": true}, 1, []any{2, map[string]any{"$output": true}}}}
	case 3: // named repeat products
		return []any{map[string]any{"$repeat": map[string]any{"b": 2, "a": 2, "c": 1 + g.N(2)}, "v": `$"{$repeat:a}{$repeat:b}{$repeat:c}"`}}
	case 5: // repeat variables must not outlive the evaluation that bound them
		if g.P(0.5) {
			return []any{map[string]any{"$repeat": map[string]any{"x": 2, "y": 1 + g.N(2)}, "v": `$"{$repeat:x}/{$repeat.x}/{$repeat.y}"`}}
		}
		return []any{map[string]any{"a": g.Pick([]string{`$"n={$repeat.x}"`, `$"n={$repeat:x}"`, "$repeat", `$"{$repeat.y}"`})}}
	case 4: // a root-level $merge of a subtree that contains its own key
		return []any{map[string]any{"$merge": "c", "c": map[string]any{"c": g.N(3), "d": 1}, "e": "$merge:c"}}
	default:
		n := 1 + g.N(2)
		ds := []any{}
		for i := 0; i < n; i++ {
			ds = append(ds, g.EvalDoc())
		}
		return ds
	}
}

func C09(r *Run) {
	g := gen.New(r.Seed*982451653 + 9)
	n := r.Pick(400, 8000)
	inputs := make([]detInput, n)
	for i := range inputs {
		ds := detDocs(g)
		inputs[i] = detInput{Key: fmt.Sprintf("in%d", i), Docs: toTagged(ds)}
	}
	sessions := make([]Sess, n)
	// (1) this process: the first run is validated against the specification,
	// four more runs must repeat it
	for k, v := range gen.Env {
		os.Setenv(k, v)
	}
	{
		for i := range inputs {
			in := &inputs[i]
			raw := make([]any, len(in.Docs))
			for j, d := range in.Docs {
				raw[j] = tv.ToGo(d)
			}
			lines := [][]byte{evalEvent(raw, gen.Env, nil, nil, "")}
			for k := 0; k < 5; k++ {
				ok, s := evalBytes(in)
				lines = append(lines, J(map[string]any{"ev": "Repeat", "key": in.Key, "ok": ok, "sha": s, "mode": "same process"}))
			}
			sessions[i] = Sess{Lines: lines}
		}
	}
	r.Logf("in-process runs done")
	// (2) 16 goroutines at once in a race-detector build
	inFile := filepath.Join(r.Dir, "race-inputs.json")
	b, _ := json.Marshal(inputs)
	os.WriteFile(inFile, b, 0o644)
	cmd := exec.Command(filepath.Join(binDir(), "bklverif-race"), "race", inFile)
	cmd.Env = append(os.Environ(), "GORACE=halt_on_error=0 exitcode=66")
	var stderr, stdout safeBuf
	cmd.Stdout, cmd.Stderr = &stdout, &stderr
	err := cmd.Run()
	races := 0
	if err != nil {
		if ee, ok := err.(*exec.ExitError); ok && ee.ExitCode() == 66 {
			races = 1
		} else if containsStr(stderr.String(), "fatal error: concurrent map") || containsStr(stderr.String(), "WARNING: DATA RACE") {
			r.Violate("concurrent evaluations crashed on shared state: "+trunc(stderr.String(), 300),
				map[string]any{"kind": "race", "report": trunc(stderr.String(), 4000)})
			r.Cov["evaluations"], r.Cov["distinct_nontrivial"] = n, n
			r.Cov["rule"] = "aborted: the concurrent worker crashed"
			r.Cov["states"], r.Cov["transitions"], r.Cov["traces_validated_against_impl"] = 1, 1, 0
			r.Sample(map[string]any{"input": inputs[0]})
			return
		} else {
			Fatal("race worker failed: %v: %.500s", err, stderr.String())
		}
	}
	if races > 0 || containsStr(stderr.String(), "WARNING: DATA RACE") {
		r.Violate("the race detector reported a data race while 16 goroutines evaluated concurrently",
			map[string]any{"kind": "race", "report": trunc(stderr.String(), 4000)})
	}
	var conc map[string][]struct {
		OK  bool   `json:"ok"`
		Sha string `json:"sha"`
	}
	if err := json.Unmarshal([]byte(stdout.String()), &conc); err != nil {
		Fatal("race worker output: %v", err)
	}
	for i := range inputs {
		for _, x := range conc[inputs[i].Key] {
			sessions[i].Lines = append(sessions[i].Lines, J(map[string]any{"ev": "Repeat", "key": inputs[i].Key, "ok": x.OK, "sha": x.Sha, "mode": "16 goroutines, race build"}))
		}
	}
	r.Logf("concurrent runs done")
	// (3) fresh processes: the CLI on files, three runs, two formats
	var wg sync.WaitGroup
	var mu sync.Mutex
	sem := make(chan struct{}, Cores())
	np := r.Pick(150, 3000)
	for i := 0; i < np && i < n; i++ {
		wg.Add(1)
		sem <- struct{}{}
		go func(i int) {
			defer wg.Done()
			defer func() { <-sem }()
			d := filepath.Join(r.Dir, fmt.Sprintf("det%d", atomic.AddInt64(&scratchSeq, 1)))
			os.MkdirAll(d, 0o755)
			defer os.RemoveAll(d)
			bs, err := fsx.Encode("yaml", inputs[i].Docs)
			if err != nil {
				return
			}
			os.WriteFile(filepath.Join(d, "in.yaml"), bs, 0o644)
			var evs [][]byte
			for k := 0; k < 3; k++ {
				for _, f := range []string{"json", "yaml"} {
					res := fsx.Run(d, []string{filepath.Join(binDir(), "bkl"), "-f", f, "in.yaml"}, gen.Env, nil, procTimeout, false)
					evs = append(evs, J(map[string]any{"ev": "Repeat", "key": inputs[i].Key + "/cli/" + f, "ok": res.Exit == 0,
						"sha": sha(res.Stdout), "mode": "fresh process"}))
				}
			}
			mu.Lock()
			sessions[i].Lines = append(sessions[i].Lines, evs...)
			mu.Unlock()
		}(i)
	}
	wg.Wait()
	// (4) the other tools, repeated in fresh processes on fixed inputs chosen so that an
	// order taken from a Go map would show: lists with common entries in opposite orders,
	// several inputs, maps with a dozen keys
	{
		wide := map[string]any{}
		for k := 0; k < 12; k++ {
			wide[fmt.Sprintf("k%02d", k)] = map[string]any{"v": k, "req": "$required"}
		}
		a := map[string]any{"ports": []any{1, 2, 3, 4, 5}, "wide": wide, "name": "a", "tags": []any{"x", "y", "z"}}
		b := map[string]any{"ports": []any{5, 4, 3, 2, 1}, "wide": wide, "name": "b", "tags": []any{"z", "x"}}
		c := map[string]any{"ports": []any{3, 1, 5}, "wide": wide, "name": "c", "tags": []any{"y", "z", "x"}}
		d := filepath.Join(r.Dir, "tooldet")
		os.MkdirAll(d, 0o755)
		for nm, v := range map[string]any{"a.yaml": a, "b.json": b, "c.yaml": c} {
			bs, _ := fsx.Encode(fsx.Ext(nm), toTagged([]any{v}))
			os.WriteFile(filepath.Join(d, nm), bs, 0o644)
		}
		var evs [][]byte
		for ti, argv := range [][]string{{"bkli", "-f", "json", "a.yaml", "b.json"}, {"bkli", "-f", "yaml", "a.yaml", "b.json", "c.yaml"},
			{"bkli", "-f", "json", "c.yaml", "a.yaml", "b.json"}, {"bkld", "-f", "json", "a.yaml", "b.json"}, {"bkld", "-f", "yaml", "b.json", "c.yaml"},
			{"bklr", "-f", "json", "a.yaml"}, {"bklr", "-f", "yaml", "b.json"}} {
			for k := 0; k < 8; k++ {
				res := fsx.Run(d, append([]string{filepath.Join(binDir(), argv[0])}, argv[1:]...), nil, nil, procTimeout, false)
				evs = append(evs, J(map[string]any{"ev": "Repeat", "key": fmt.Sprintf("tool%d/%s", ti, strings.Join(argv, " ")), "ok": res.Exit == 0,
					"sha": sha(res.Stdout), "mode": "fresh process (" + argv[0] + ")"}))
			}
		}
		sessions = append(sessions, Sess{Lines: evs})
		os.RemoveAll(d)
	}
	r.Logf("process runs done")
	st := modelStats{}
	res := r.Validate("C09", sessions, nil)
	for _, bd := range res.Bad {
		r.Violate(fmt.Sprintf("determinism: %s", bd.Why),
			map[string]any{"kind": "trace", "events": Lines(sessions[bd.Session]), "event": bd.Event})
	}
	_ = st
	r.Sample(map[string]any{"input": inputs[0]})
	r.Cov["states"] = res.Generated
	r.Cov["transitions"] = res.Generated
	r.Cov["traces_validated_against_impl"] = len(sessions)
	r.Cov["trace_events"] = res.Events
	r.Cov["trace_events_compared"] = res.Checked
	r.Cov["runs_same_process"] = 5 * n
	r.Cov["runs_concurrent_race_build"] = 16 * n
	r.Cov["runs_fresh_processes"] = 6 * min(np, n)
	r.Cov["evaluations"] = n
	r.Cov["distinct_nontrivial"] = n
	r.Cov["rule"] = "inputs: wide maps through tolist/values, computed keys colliding with literal siblings, many outputs, named repeat products, self-containing root merges, generated directive-laden streams; each evaluated once against the specification, 5x in this process, from 16 goroutines in a race-detector build, and 3x2 in fresh processes; bkli / bkld / bklr 8x each in fresh processes on inputs with opposite list orders; TLC checks that every run repeats the first one (status and bytes)"
	r.Cov["checker_cmd"] = first(res.Cmds)
}

type safeBuf struct {
	mu sync.Mutex
	b  []byte
}

func (s *safeBuf) Write(p []byte) (int, error) {
	s.mu.Lock()
	defer s.mu.Unlock()
	s.b = append(s.b, p...)
	return len(p), nil
}
func (s *safeBuf) String() string { s.mu.Lock(); defer s.mu.Unlock(); return string(s.b) }

func containsStr(s, sub string) bool { return contains(s, sub) }
