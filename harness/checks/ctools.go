package checks

import (
	"bytes"
	"crypto/sha1"
	"encoding/json"
	"fmt"
	"os"
	"path/filepath"
	"strings"
	"sync"
	"sync/atomic"
	"time"

	"bklverif/fsx"
	"bklverif/gen"
	"bklverif/indep"
	"bklverif/tlc"
	"bklverif/tv"
)

// decodeOne decodes a tool's single-document output with the independent
// decoder of the format; an empty stream or a null document is Null.
func decodeOne(format string, b []byte) (tv.T, bool) {
	if len(bytes.TrimSpace(b)) == 0 {
		return tv.T{"n", ""}, true
	}
	docs, ok, _, err := indep.Decode(format, string(b))
	if err != nil {
		Fatal("independent decoder: %v", err)
	}
	if !ok || len(docs) > 1 {
		return nil, false
	}
	if len(docs) == 0 {
		return tv.T{"n", ""}, true
	}
	return docs[0].([]any), true
}

func toolDir(r *Run) string {
	d := filepath.Join(r.Dir, fmt.Sprintf("tool%d", atomic.AddInt64(&scratchSeq, 1)))
	os.MkdirAll(d, 0o755)
	return d
}

func writeTree(dir, name string, exts []string, g *gen.G, t tv.T) string {
	for try := 0; try < 4; try++ {
		ext := exts[g.N(len(exts))]
		b, err := fsx.Encode(ext, []tv.T{t})
		if err == nil {
			os.WriteFile(filepath.Join(dir, name+"."+ext), b, 0o644)
			return name + "." + ext
		}
	}
	b, _ := fsx.Encode("json", []tv.T{t})
	os.WriteFile(filepath.Join(dir, name+".json"), b, 0o644)
	return name + ".json"
}

// virtualName: the same layer named through another supported extension (no such file
// exists: the tools find the real one by its stem) - for a fifth of the inputs.
func virtualName(g *gen.G, file string) string {
	if !g.P(0.2) {
		return file
	}
	ext := fsx.Ext(file)
	stem := strings.TrimSuffix(file, "."+ext)
	for _, e := range []string{"json", "yaml", "toml", "yml", "jsonl"} {
		if e != ext && g.P(0.4) {
			return stem + "." + e
		}
	}
	return file
}

func tool(dir string, argv ...string) fsx.RunResult {
	return fsx.Run(dir, append([]string{filepath.Join(binDir(), argv[0])}, argv[1:]...), nil, nil, 20*time.Second, false)
}

var allExts = []string{"json", "yaml", "toml", "yml"}

// ---------------------------------------------------------------------------
// bklr

func bklrEvent(r *Run, g *gen.G, layers []tv.T) []byte {
	d := toolDir(r)
	defer os.RemoveAll(d)
	name := "a"
	top := ""
	for i, l := range layers {
		prev := name
		if i > 0 {
			name += "." + string(rune('a'+i))
		}
		if m, isMap := tv.ToGo(l).(map[string]any); isMap && i > 0 && i == len(layers)-1 && g.P(0.25) {
			// the same chain spelled with $parent: the top layer has a plain name and names its parent
			mm := map[string]any{"$parent": prev}
			for k, v := range m {
				mm[k] = v
			}
			name = "top"
			top = writeTree(d, name, allExts, g, tv.FromGo(mm))
			continue
		}
		top = writeTree(d, name, allExts, g, l)
	}
	f := g.Pick([]string{"json", "yaml"})
	var res fsx.RunResult
	if g.P(0.4) {
		// through -o, into a file that already holds an older skeleton: afterwards the file
		// holds THIS result (also when it is empty)
		op := "req." + g.Pick([]string{f, f, "yml"})
		if fsx.Ext(op) == "yml" {
			f = "yaml"
		}
		os.WriteFile(filepath.Join(d, op), []byte("stale: $required\n"), 0o644)
		res = tool(d, "bklr", "-o", op, virtualName(g, top))
		if res.Exit == 0 {
			res.Stdout, _ = os.ReadFile(filepath.Join(d, op))
		}
	} else {
		ff := f
		if f == "json" && g.P(0.3) {
			ff = "json-pretty"
		}
		res = tool(d, "bklr", "-f", ff, virtualName(g, top))
	}
	ev := map[string]any{"ev": "Tool", "tool": "bklr", "layers": layers, "ok": res.Exit == 0, "plain": true,
		"out": tv.T{"n", ""}, "second": tv.T{"n", ""}, "bkl": map[string]any{"ok": false, "required": false}}
	if res.TimedOut || res.Panicked {
		ev["ok"] = false
		ev["crashed"] = true
	}
	if res.Exit == 0 {
		out, ok := decodeOne(f, res.Stdout)
		if !ok {
			ev["ok"] = false
			ev["undecodable"] = trunc(string(res.Stdout), 200)
		} else {
			ev["out"] = out
			// bklr on its own output
			os.WriteFile(filepath.Join(d, "r."+f), res.Stdout, 0o644)
			if len(bytes.TrimSpace(res.Stdout)) == 0 {
				os.WriteFile(filepath.Join(d, "r.json"), []byte("null\n"), 0o644)
				f = "json"
			}
			res2 := tool(d, "bklr", "-f", "json", "r."+f)
			if res2.Exit == 0 {
				if o2, ok2 := decodeOne("json", res2.Stdout); ok2 {
					ev["second"] = o2
				}
			} else {
				ev["second"] = tv.T{"s", "bklr failed on its own output: " + trunc(string(res2.Stderr), 100)}
			}
		}
	}
	rb := tool(d, "bkl", "-f", "json", top)
	ev["bkl"] = map[string]any{"ok": rb.Exit == 0, "required": bytes.Contains(rb.Stderr, []byte("required field not set"))}
	return J(ev)
}

func requiredTree(g *gen.G, d int) any {
	if d <= 0 || g.P(0.3) {
		if g.P(0.35) {
			return "$required"
		}
		return []any{1, "v", true, 2.5, "x"}[g.N(5)]
	}
	if g.P(0.6) {
		m := map[string]any{}
		for i := 1 + g.N(3); i > 0; i-- {
			m[g.Pick([]string{"a", "b", "c", "d", "$Up", "$1"})] = requiredTree(g, d-1)
		}
		return m
	}
	l := []any{}
	nl := g.N(4)
	if d >= 3 && g.P(0.05) {
		nl = 12 + g.N(30) // the large regime
	}
	for i := nl; i > 0; i-- {
		l = append(l, requiredTree(g, d-1))
	}
	return l
}

// satisfy builds an upper layer overriding some of the lower layer's fields.
func satisfy(g *gen.G, lower any) any {
	switch x := lower.(type) {
	case map[string]any:
		m := map[string]any{}
		for _, k := range gen.SortedKeys(x) {
			if g.P(0.5) {
				switch v := x[k].(type) {
				case map[string]any:
					m[k] = satisfy(g, v)
				case []any:
					m[k] = []any{"filled"}
				case string:
					if v == "$required" {
						m[k] = "set"
					} else {
						m[k] = v + "2"
					}
				default:
					m[k] = "over"
				}
			}
		}
		if g.P(0.2) {
			m["extra"] = g.Pick([]string{"$required", "e"})
		}
		return m
	}
	return map[string]any{"extra": 1}
}

func C17(r *Run) {
	g := gen.New(r.Seed*275604541 + 17)
	var sessions []Sess
	var mu sync.Mutex
	st := modelToolCases(r, "C17", 1, func(js []byte) {
		var v struct {
			Layers []tv.T `json:"layers"`
		}
		if err := json.Unmarshal(js, &v); err != nil {
			Fatal("bad vector: %v", err)
		}
		mu.Lock()
		gg := gen.New(int64(len(sessions)) + r.Seed)
		mu.Unlock()
		ev := bklrEvent(r, gg, v.Layers)
		mu.Lock()
		sessions = append(sessions, Sess{Lines: [][]byte{ev}})
		mu.Unlock()
	})
	n := r.Pick(400, 8000)
	var wg sync.WaitGroup
	sem := make(chan struct{}, Cores())
	for i := 0; i < n; i++ {
		root, ok := requiredTree(g, 3+g.N(2)).(map[string]any)
		if !ok {
			root = map[string]any{"v": requiredTree(g, 2)}
		}
		layers := []tv.T{tv.FromGo(root)}
		var cur any = root
		for j := g.N(3); j > 0; j-- {
			up := satisfy(g, cur)
			layers = append(layers, tv.FromGo(up))
			cur = overlay(cur, up)
		}
		seed := g.R.Int63()
		wg.Add(1)
		sem <- struct{}{}
		go func() {
			defer wg.Done()
			defer func() { <-sem }()
			ev := bklrEvent(r, gen.New(seed), layers)
			mu.Lock()
			sessions = append(sessions, Sess{Lines: [][]byte{ev}})
			mu.Unlock()
		}()
	}
	wg.Wait()
	finishEvalFamily(r, "C17", st, sessions, []string{"RequiredModel = Skeleton", "OnlyMarkers", "Idempotent", "AgreesWithBkl"},
		"model: all 2^8 placements of $required on an 8-position tree (below a non-directive key starting with a dollar sign, map values, nested map, list entries, map inside a list, two levels below a list entry, below a list nested in a list) x 9 upper layers (some satisfying), each run through the real bklr (output, idempotence) and bkl (agreement); driver: random trees with $required at random map values and list entries to depth 3-4, 1-3 layers in mixed formats; TLC judges the decoded real output against the declarative Skeleton")
}

// modelToolCases runs MC_Tools for a family and hands every printed case to f.
func modelToolCases(r *Run, family string, bound int, f func(js []byte)) modelStats {
	nsh := 3
	var st modelStats
	var mu sync.Mutex
	seen := map[[20]byte]bool{}
	sem := make(chan struct{}, Cores())
	var wg, wgRun sync.WaitGroup
	for sh := 0; sh < nsh; sh++ {
		wg.Add(1)
		go func(sh int) {
			defer wg.Done()
			dir := filepath.Join(r.Dir, fmt.Sprintf("mc-tools-%s-%d", family, sh))
			cfg := fmt.Sprintf("SPECIFICATION Spec\nCONSTANTS\n CharOrder <- AsciiOrder\n LowerSet <- AsciiLower\n MaxFuel = 64\n Family = \"%s\"\n Bound = %d\n Shard = %d\n NShards = %d\nINVARIANT TypeOK\nCHECK_DEADLOCK FALSE\n", family, bound, sh, nsh)
			res, err := tlc.RunModelCfg(dir, "MC_Tools", cfg, 3, "4g", 60*time.Minute, func(js []byte) {
				h := sha1.Sum(js)
				mu.Lock()
				st.Vectors++
				dup := seen[h]
				seen[h] = true
				if !dup {
					st.Replayed++
					if st.Replayed <= 2 {
						r.Sample(map[string]any{"model_case": json.RawMessage(append([]byte{}, js...))})
					}
				}
				mu.Unlock()
				if dup {
					return
				}
				jsc := append([]byte{}, js...)
				wgRun.Add(1)
				sem <- struct{}{}
				go func() {
					defer wgRun.Done()
					defer func() { <-sem }()
					f(jsc)
				}()
			})
			if err != nil {
				Fatal("MC_Tools(%s): %v", family, err)
			}
			if res.InvariantBad {
				Fatal("MC_Tools(%s): the specification violates its own law: %s", family, res.Output)
			}
			mu.Lock()
			st.States += res.Generated
			st.Distinct += res.Distinct
			st.Cmd = res.Cmd
			mu.Unlock()
		}(sh)
	}
	wg.Wait()
	wgRun.Wait()
	if st.Replayed < 20 {
		Fatal("MC_Tools(%s) produced only %d cases", family, st.Replayed)
	}
	return st
}

// ---------------------------------------------------------------------------
// bkld

// bkldRun: real bkld on (base, target) written in random formats, then real
// bkl on base + the emitted layer file.
func bkldRun(d string, g *gen.G, baseName string, base, target tv.T, tag string) map[string]any {
	bf := writeTree(d, baseName, allExts, g, base)
	tf := writeTree(d, "target"+tag, allExts, g, target)
	lf := baseName + ".lay" + tag + "." + g.Pick([]string{"yaml", "json", "yml", "jsonl"})
	res := tool(d, "bkld", "-o", lf, virtualName(g, bf), virtualName(g, tf))
	out := map[string]any{"ok": res.Exit == 0 && !res.TimedOut && !res.Panicked, "layer": tv.T{"n", ""},
		"applied": map[string]any{"ok": false, "outs": []any{}}, "stderr": trunc(string(res.Stderr), 200)}
	if out["ok"] != true {
		return out
	}
	lb, _ := os.ReadFile(filepath.Join(d, lf))
	lay, ok := decodeOne(fsx.Ext(lf), lb)
	if !ok {
		out["ok"] = false
		out["stderr"] = "bkld output not decodable: " + trunc(string(lb), 200)
		return out
	}
	out["layer"] = lay
	ra := tool(d, "bkl", "-f", "json", lf)
	ap := map[string]any{"ok": ra.Exit == 0, "outs": []any{}, "stderr": trunc(string(ra.Stderr), 200)}
	if ra.Exit == 0 {
		if outs, err := fsx.DecodeJSONStream(ra.Stdout); err == nil {
			ap["outs"] = outs
		} else {
			ap["ok"] = false
		}
	}
	out["applied"] = ap
	return out
}

func bkldEvent(r *Run, g *gen.G, base, target tv.T, kf string) []byte {
	d := toolDir(r)
	defer os.RemoveAll(d)
	res := bkldRun(d, g, "base", base, target, "")
	ev := map[string]any{"ev": "Tool", "tool": "bkld", "base": base, "target": target, "ok": res["ok"], "layer": res["layer"],
		"applied": res["applied"], "stderr": res["stderr"]}
	if kf != "" {
		ev["kf"] = kf
	}
	return J(ev)
}

// kindChange: the target turns a non-empty map into a scalar or list, or a
// list into a scalar or map, somewhere (the listed known finding of bkld).
func kindChange(b, t any) bool {
	switch x := b.(type) {
	case map[string]any:
		y, ok := t.(map[string]any)
		if !ok {
			return len(x) > 0
		}
		for k, bv := range x {
			if tv2, has := y[k]; has && kindChange(bv, tv2) {
				return true
			}
		}
	case []any:
		if _, ok := t.([]any); !ok {
			return true
		}
	}
	return false
}

// plainMap: map-rooted, null-free, $-free tree.
func plainMap(g *gen.G, d int) map[string]any {
	m := map[string]any{}
	for i := 2 + g.N(3); i > 0; i-- {
		m[g.Pick([]string{"a", "b", "c", "d", "e", "name"})] = plainVal(g, d-1)
	}
	return m
}

func plainVal(g *gen.G, d int) any {
	if d <= 0 || g.P(0.35) {
		return []any{1, 2, "x", "y", true, 1.5, "", "1", 0, false}[g.N(10)]
	}
	if g.P(0.08) {
		return []any{map[string]any{}, []any{}}[g.N(2)] // empty containers
	}
	if g.P(0.5) {
		return plainMap(g, d)
	}
	l := []any{}
	for i := g.N(4); i > 0; i-- {
		if g.P(0.5) {
			l = append(l, map[string]any{"k": g.N(2), "j": g.N(2)})
		} else {
			l = append(l, plainVal(g, d-1))
		}
	}
	return l
}

// bigServices: a long list (16-45 entries) of similar maps with some entries twice
// and, at the end, a stub that is a partial match of an entry near the front - sizes
// at which an implementation may switch to a prefix-stripping or an indexed algorithm.
func bigServices(g *gen.G) []any {
	n := 16 + g.N(30)
	l := make([]any, 0, n+3)
	for i := 0; i < n; i++ {
		l = append(l, map[string]any{"name": fmt.Sprintf("svc%d", i), "port": 8000 + i})
	}
	for d := 1 + g.N(3); d > 0; d-- {
		l = append(l, gen.Clone(l[g.N(n)])) // duplicates
	}
	if g.P(0.5) {
		l = append(l, "dup", "dup")
	}
	return l
}

// edit applies 1-3 random edits of the property's catalogue.
func edit(g *gen.G, t map[string]any) map[string]any {
	out := gen.Clone(t).(map[string]any)
	for n := 1 + g.N(3); n > 0; n-- {
		editAt(g, out, 3)
	}
	return out
}

func editAt(g *gen.G, m map[string]any, d int) {
	keys := gen.SortedKeys(m)
	if len(keys) == 0 || g.P(0.15) {
		m[g.Pick([]string{"n1", "n2", "a"})] = plainVal(g, 1)
		return
	}
	k := keys[g.N(len(keys))]
	switch v := m[k].(type) {
	case map[string]any:
		switch {
		case d > 0 && g.P(0.6):
			editAt(g, v, d-1)
		case g.P(0.3):
			delete(m, k)
		case g.P(0.2):
			m[k] = map[string]any{} // emptied
		case g.P(0.3):
			m[k] = plainVal(g, 0) // kind change: map -> scalar
		default:
			m[k] = []any{1} // kind change: map -> list
		}
	case []any:
		l := append([]any{}, v...)
		switch r := g.N(12); {
		case r < 2:
			l = append(l, plainVal(g, 1))
		case r < 3 && len(l) > 0:
			i := g.N(len(l))
			l = append(l[:i], l[i+1:]...)
		case r < 5 && len(l) > 1:
			i, j := g.N(len(l)), g.N(len(l))
			l[i], l[j] = l[j], l[i]
		case r < 6 && len(l) > 0:
			l = append(l, gen.Clone(l[g.N(len(l))]))
		case r < 7:
			l = append([]any{plainVal(g, 0)}, l...)
		case r < 8 && len(l) > 0:
			// remove an entry that is a partial match of a kept one
			if mm, ok := l[0].(map[string]any); ok && len(mm) > 0 {
				sub := map[string]any{}
				for kk, vv := range mm {
					sub[kk] = vv
					break
				}
				l = append(l, mm)
				l[0] = sub
				m[k] = l // base gets both; the target then drops the partial one
				return
			}
			l = l[:len(l)-1]
		case r < 9:
			m[k] = "scalar" // kind change
			return
		case r < 10:
			m[k] = map[string]any{"q": 1} // kind change
			return
		default:
			if len(l) > 0 {
				if mm, ok := l[g.N(len(l))].(map[string]any); ok {
					mm["chg"] = g.N(3)
				} else {
					l[g.N(len(l))] = plainVal(g, 0)
				}
			}
		}
		m[k] = l
	default:
		switch g.N(6) {
		case 0:
			delete(m, k)
		case 1:
			m[k] = map[string]any{"z": 1} // scalar -> map
		case 2:
			m[k] = []any{v}
		default:
			m[k] = plainVal(g, 0)
		}
	}
}

func C15(r *Run) {
	g := gen.New(r.Seed*314606869 + 15)
	var sessions []Sess
	var mu sync.Mutex
	modelFail := 0
	st := modelToolCases(r, "C15", r.Pick(1, 2), func(js []byte) {
		var v struct {
			Base, Target tv.T
			ModelOK      bool `json:"modelok"`
			KindChange   bool `json:"kindchange"`
		}
		if err := json.Unmarshal(js, &v); err != nil {
			Fatal("bad vector: %v", err)
		}
		kf := ""
		if kindChange(tv.ToGo(v.Base), tv.ToGo(v.Target)) {
			kf = "c15-kind-change"
		}
		mu.Lock()
		if !v.ModelOK {
			modelFail++
		}
		gg := gen.New(int64(len(sessions))*31 + r.Seed)
		mu.Unlock()
		ev := bkldEvent(r, gg, v.Base, v.Target, kf)
		mu.Lock()
		sessions = append(sessions, Sess{Lines: [][]byte{ev}})
		mu.Unlock()
	})
	r.Cov["model_pairs_where_the_transcribed_algorithm_breaks_the_contract"] = modelFail
	n := r.Pick(500, 10000)
	var wg sync.WaitGroup
	sem := make(chan struct{}, Cores())
	for i := 0; i < n; i++ {
		base := plainMap(g, 3)
		var target map[string]any
		switch {
		case g.P(0.08):
			// the large regime: a long list; the base ends with a stub that partially matches
			// an entry of the unchanged head, the target drops it (and may change the tail)
			svc := bigServices(g)
			base["services"] = svc
			target = gen.Clone(base).(map[string]any)
			stubOf := svc[g.N(8)].(map[string]any)
			base["services"] = append(append([]any{}, svc...), map[string]any{"name": stubOf["name"]})
			if g.P(0.5) {
				tl := target["services"].([]any)
				target["services"] = append(tl[:len(tl):len(tl)], map[string]any{"name": "added"})
			}
			if g.P(0.3) {
				target = edit(g, target)
			}
		case g.P(0.06):
			target = gen.Clone(base).(map[string]any)
		default:
			target = edit(g, base)
		}
		kf := ""
		if kindChange(base, target) {
			kf = "c15-kind-change"
		}
		tb, tt := tv.FromGo(base), tv.FromGo(target)
		seed := g.R.Int63()
		wg.Add(1)
		sem <- struct{}{}
		go func() {
			defer wg.Done()
			defer func() { <-sem }()
			ev := bkldEvent(r, gen.New(seed), tb, tt, kf)
			mu.Lock()
			sessions = append(sessions, Sess{Lines: [][]byte{ev}})
			mu.Unlock()
		}()
	}
	wg.Wait()
	// targets that carry directives (an extension beyond the $-free quantifier): bkld diffs the
	// EVALUATED target, so base + layer evaluates to what the target evaluates to
	dbase := map[string]any{"a": 1, "keep": []any{1, 2}}
	for i, extra := range []map[string]any{
		{"$repeat": 1, "name": `$"web-{$repeat}"`},
		{"$repeat": map[string]any{"zone": 1}, "name": `$"z{$repeat:zone}"`},
		{"$repeat": 1, "plain": "x"},
		{"t": `$"<{a}>"`},
		{"c": "$merge:keep"},
		{"e": map[string]any{"$encode": "join:,", "$value": []any{"x", "y"}}},
		{"m": map[string]any{"$merge": "sub", "own": 1}, "sub": map[string]any{"p": 1}},
	} {
		target := gen.Clone(dbase).(map[string]any)
		for k, v := range extra {
			target[k] = v
		}
		d := toolDir(r)
		res := bkldRun(d, gen.New(r.Seed+int64(i)), "base", tv.FromGo(dbase), tv.FromGo(target), "")
		os.RemoveAll(d)
		sessions = append(sessions, Sess{Lines: [][]byte{J(map[string]any{"ev": "Tool", "tool": "bkld", "directive": true, "base": tv.FromGo(dbase), "target": tv.FromGo(target),
			"ok": res["ok"], "layer": res["layer"], "applied": res["applied"], "stderr": res["stderr"]})}})
	}
	finishEvalFamily(r, "C15", st, sessions, []string{"DiffOK (contract, on the real layer)", "EmptyLayerWhenSame", "AcceptedByBkl"},
		"model: a base and every target one edit away (two in the deeper bound) over the property's edit catalogue (keys added / removed / changed at depth, list entries appended / removed / reordered / duplicated / inserted, a removed entry that is a partial match of a kept one, kind changes), both directions; driver: random map-rooted, null-free, $-free trees with 1-3 random edits, files in mixed formats; the REAL bkld layer is decoded independently, judged by TLC with the contract DiffOK (specification's own Merge/Eval), and applied by the real bkl")
}

// ---------------------------------------------------------------------------
// bkli

func bkliEvent(r *Run, g *gen.G, inputs []tv.T, kf string) []byte {
	d := toolDir(r)
	defer os.RemoveAll(d)
	files := make([]string, len(inputs))
	for i, in := range inputs {
		files[i] = writeTree(d, fmt.Sprintf("in%d", i), allExts, g, in)
	}
	cf := "common." + g.Pick([]string{"yaml", "json"})
	if len(files) >= 2 && g.P(0.15) {
		// an input named twice (the second time perhaps through a virtual extension): it
		// counts once, and every input after it still counts
		at := 1 + g.N(len(files)-1)
		files = append(files[:at:at], append([]string{files[at-1]}, files[at:]...)...)
		inputs = append(inputs[:at:at], append([]tv.T{inputs[at-1]}, inputs[at:]...)...)
	}
	named := make([]string, len(files))
	for i, f := range files {
		named[i] = virtualName(g, f)
	}
	res := tool(d, append([]string{"bkli", "-o", cf}, named...)...)
	ev := map[string]any{"ev": "Tool", "tool": "bkli", "inputs": inputs, "ok": res.Exit == 0 && !res.TimedOut && !res.Panicked,
		"out": tv.T{"n", ""}, "selfs": []any{}, "migrate": []any{}, "stderr": trunc(string(res.Stderr), 200)}
	if kf != "" {
		ev["kf"] = kf
	}
	if ev["ok"] != true {
		return J(ev)
	}
	cb, _ := os.ReadFile(filepath.Join(d, cf))
	out, ok := decodeOne(fsx.Ext(cf), cb)
	if !ok {
		ev["ok"] = false
		ev["stderr"] = "bkli output not decodable: " + trunc(string(cb), 200)
		return J(ev)
	}
	ev["out"] = out
	selfs := []any{}
	for i := range inputs {
		if i%2 == 1 && fsx.Ext(files[i]) != "toml" {
			// in place: the output file is one of the inputs (all inputs are read before anything is written)
			ext := fsx.Ext(files[i])
			cp := fmt.Sprintf("self%d.%s", i, ext)
			b, _ := os.ReadFile(filepath.Join(d, files[i]))
			os.WriteFile(filepath.Join(d, cp), b, 0o644)
			rs := tool(d, "bkli", "-o", cp, cp, cp)
			ob, _ := os.ReadFile(filepath.Join(d, cp))
			if o, ok := decodeOne(ext, ob); ok && rs.Exit == 0 {
				selfs = append(selfs, o)
			} else {
				selfs = append(selfs, tv.T{"s", "bkli -o <input> failed: " + trunc(string(rs.Stderr)+string(ob), 100)})
			}
			continue
		}
		rs := tool(d, "bkli", "-f", "json", files[i], files[i])
		if o, ok := decodeOne("json", rs.Stdout); ok && rs.Exit == 0 {
			selfs = append(selfs, o)
		} else {
			selfs = append(selfs, tv.T{"s", "bkli failed: " + trunc(string(rs.Stderr), 100)})
		}
	}
	ev["selfs"] = selfs
	mig := []any{}
	for i := range inputs {
		lf := fmt.Sprintf("common.m%d.yaml", i)
		rd := tool(d, "bkld", "-o", lf, cf, files[i])
		m := map[string]any{"ok": false, "layer": tv.T{"n", ""}, "outs": []any{}}
		if rd.Exit == 0 {
			lb, _ := os.ReadFile(filepath.Join(d, lf))
			if lay, ok := decodeOne("yaml", lb); ok {
				m["layer"] = lay
				ra := tool(d, "bkl", "-f", "json", lf)
				if ra.Exit == 0 {
					if outs, err := fsx.DecodeJSONStream(ra.Stdout); err == nil {
						m["ok"] = true
						m["outs"] = outs
					}
				} else {
					m["stderr"] = trunc(string(ra.Stderr), 200)
				}
			}
		} else {
			m["stderr"] = trunc(string(rd.Stderr), 200)
		}
		mig = append(mig, m)
	}
	ev["migrate"] = mig
	// the migrated layers evaluated in ONE run: every layer patches its own copy of the common base only
	allOK := len(mig) > 0
	args := []string{"bkl", "-f", "json"}
	for i, m := range mig {
		if m.(map[string]any)["ok"] != true {
			allOK = false
		}
		args = append(args, fmt.Sprintf("common.m%d.yaml", i))
	}
	if allOK {
		ra := tool(d, args...)
		tg := map[string]any{"ok": false, "outs": []any{}}
		if ra.Exit == 0 {
			if outs, err := fsx.DecodeJSONStream(ra.Stdout); err == nil {
				tg["ok"] = true
				tg["outs"] = outs
			}
		} else {
			tg["stderr"] = trunc(string(ra.Stderr), 200)
		}
		ev["together"] = tg
	}
	return J(ev)
}

func anyKindDiff(xs []any) bool {
	for i := range xs {
		for j := range xs {
			if i != j && (kindChange(xs[i], xs[j]) || kindDiffShallow(xs[i], xs[j])) {
				return true
			}
		}
	}
	return false
}

// kindDiffShallow: some shared path holds containers of different kinds or a
// container against a scalar.
func kindDiffShallow(a, b any) bool {
	am, aok := a.(map[string]any)
	bm, bok := b.(map[string]any)
	if aok && bok {
		for k, av := range am {
			if bv, has := bm[k]; has && kindDiffShallow(av, bv) {
				return true
			}
		}
		return false
	}
	_, al := a.([]any)
	_, bl := b.([]any)
	if al && bl {
		return false
	}
	return aok != bok || al != bl
}

func C16(r *Run) {
	g := gen.New(r.Seed*373587883 + 16)
	var sessions []Sess
	var mu sync.Mutex
	st := modelToolCases(r, "C16", r.Pick(1, 2), func(js []byte) {
		var v struct {
			Inputs []tv.T `json:"inputs"`
		}
		if err := json.Unmarshal(js, &v); err != nil {
			Fatal("bad vector: %v", err)
		}
		mu.Lock()
		gg := gen.New(int64(len(sessions))*17 + r.Seed)
		mu.Unlock()
		raw := make([]any, len(v.Inputs))
		for i := range raw {
			raw[i] = tv.ToGo(v.Inputs[i])
		}
		kf := ""
		if anyKindDiff(raw) {
			kf = "c16-kind-difference"
		}
		ev := bkliEvent(r, gg, v.Inputs, kf)
		mu.Lock()
		sessions = append(sessions, Sess{Lines: [][]byte{ev}})
		mu.Unlock()
	})
	n := r.Pick(300, 6000)
	var wg sync.WaitGroup
	sem := make(chan struct{}, Cores())
	for i := 0; i < n; i++ {
		anc := plainMap(g, 3)
		if g.P(0.08) {
			anc["services"] = bigServices(g) // the large regime: > 32 entries with duplicates in every input
		}
		k := 2 + g.N(3)
		raw := make([]any, k)
		for j := range raw {
			switch {
			case g.P(0.1):
				raw[j] = plainMap(g, 2) // unrelated
			case g.P(0.15):
				raw[j] = gen.Clone(anc)
			default:
				raw[j] = edit(g, anc)
			}
		}
		kf := ""
		if anyKindDiff(raw) {
			kf = "c16-kind-difference"
		}
		ins := toTagged(raw)
		seed := g.R.Int63()
		wg.Add(1)
		sem <- struct{}{}
		go func() {
			defer wg.Done()
			defer func() { <-sem }()
			ev := bkliEvent(r, gen.New(seed), ins, kf)
			mu.Lock()
			sessions = append(sessions, Sess{Lines: [][]byte{ev}})
			mu.Unlock()
		}()
	}
	wg.Wait()
	finishEvalFamily(r, "C16", st, sessions, []string{"Common", "MarksDiffering", "Maximal", "SelfIntersect", "MigrationLossless (DiffOK per input)"},
		"model: every ordered pair (and, deeper, triples) of documents one edit away from a common ancestor, plus unrelated ones; driver: 2-4 documents derived from a random common ancestor by random edits (or unrelated), any argument order, files in mixed formats; the REAL bkli result is decoded independently and judged by TLC with the contract (Common, MarksDiffering, Maximal), each input is intersected with itself, and for every input the real bkld + bkl migration is run and judged with DiffOK")
}
