package checks

import (
	"crypto/sha1"
	"encoding/json"
	"fmt"
	"path/filepath"
	"sync"
	"time"

	"bklverif/tlc"
)

type modelStats struct {
	States, Distinct, Vectors, Replayed int64
	Cmd                                 string
}

// modelHistories runs MC_Parser for a family, sharded over processes, and
// replays every emitted call history on one live Parser each.
func modelHistories(r *Run, family string, maxCalls int) modelStats {
	nsh := 5
	var st modelStats
	var mu sync.Mutex
	seen := map[[20]byte]bool{}
	var wg sync.WaitGroup
	for sh := 0; sh < nsh; sh++ {
		wg.Add(1)
		go func(sh int) {
			defer wg.Done()
			dir := filepath.Join(r.Dir, fmt.Sprintf("mc-parser-%s-%d", family, sh))
			cfg := fmt.Sprintf("SPECIFICATION Spec\nCONSTANTS\n CharOrder <- AsciiOrder\n LowerSet <- AsciiLower\n MaxFuel = 64\n Family = \"%s\"\n MaxCalls = %d\n Shard = %d\n NShards = %d\nINVARIANT TypeOK\nPROPERTY ObservationIsPure\nCHECK_DEADLOCK FALSE\n", family, maxCalls, sh, nsh)
			res, err := tlc.RunModelCfg(dir, "MC_Parser", cfg, 3, "4g", 90*time.Minute, func(js []byte) {
				h := sha1.Sum(js)
				mu.Lock()
				st.Vectors++
				dup := seen[h]
				seen[h] = true
				mu.Unlock()
				if dup {
					return
				}
				var v histVector
				if err := json.Unmarshal(js, &v); err != nil {
					Fatal("bad vector from TLC: %v: %.300s", err, js)
				}
				why, obs := replayHistory(&v)
				mu.Lock()
				st.Replayed++
				if st.Replayed <= 2 {
					r.Sample(map[string]any{"history_vector": json.RawMessage(js)})
				}
				if why != "" {
					r.Violate("call history from the bounded model: "+why,
						map[string]any{"kind": "history", "vector": json.RawMessage(js), "observed": obs})
				}
				mu.Unlock()
			})
			if err != nil {
				Fatal("MC_Parser(%s): %v", family, err)
			}
			if res.InvariantBad {
				Fatal("MC_Parser(%s): the specification violates its own property: %s", family, res.Output)
			}
			mu.Lock()
			st.States += res.Generated
			st.Distinct += res.Distinct
			st.Cmd = res.Cmd
			mu.Unlock()
		}(sh)
	}
	wg.Wait()
	if st.Replayed < 100 {
		Fatal("MC_Parser(%s) produced only %d histories", family, st.Replayed)
	}
	return st
}

func (r *Run) modelCov(st modelStats, theorems []string) {
	r.Cov["states"] = st.Distinct
	r.Cov["transitions"] = st.States
	r.Cov["model_vectors_emitted"] = st.Vectors
	r.Cov["model_vectors_replayed_on_impl"] = st.Replayed
	r.Cov["model_cmd"] = st.Cmd
	r.Cov["model_theorems_checked_by_tlc"] = theorems
}
