package checks

import (
	"bytes"
	"crypto/sha256"
	"encoding/hex"
	"fmt"

	"bklverif/gen"
	"bklverif/real"
	"bklverif/tv"
)

// puritySession: one live Parser, up to 8 calls interleaving MergeDocument,
// Documents and the output methods over documents that use $merge, $replace,
// $repeat, interpolation, $env, $output.
var sessDebug func(string)

func puritySession(g *gen.G, idx int) Sess {
	var lines [][]byte
	var meta []any
	real.WithEnv(gen.Env, func() {
		s := real.NewSess()
		lines = append(lines, J(map[string]any{"ev": "Reset"}))
		nb := 1 + g.N(2)
		base := []string{}
		alive := true
		merge := func(id string, parents []string, data any) {
			t := tv.FromGo(data)
			meta = append(meta, map[string]any{"call": "MergeDocument", "id": id, "data": t})
			if sessDebug != nil {
				sessDebug(string(J(meta[len(meta)-1])))
			}
			o := s.MergeDocument(id, parents, t)
			lines = append(lines, J(map[string]any{"ev": "MergeDocument",
				"patch": map[string]any{"id": id, "parents": parents, "data": t},
				"ok":    o.OK, "err": o.Class, "docs": s.Docs()}))
			alive = o.OK
		}
		for i := 0; i < nb && alive; i++ {
			id := fmt.Sprintf("s%d.b%d", idx, i)
			d := g.EvalDoc()
			d["name"] = fmt.Sprintf("d%d", i)
			if i > 0 && g.P(0.6) {
				// cross-document references to the first document: whole document,
				// with $path, short form
				pat := map[string]any{"name": "d0"}
				switch g.N(6) {
				case 4: // the string forms, whose path is a flow list that starts with a document pattern
					d["xstr"] = "$replace:[{name: d0}, " + g.Pick([]string{"h0", "t0", "t1"}) + "]"
				case 5:
					d["xstrm"] = "$merge:[{name: d0}, " + g.Pick([]string{"h0", "t0"}) + "]"
				case 0:
					d["xwhole"] = map[string]any{"$replace": map[string]any{"$match": pat}}
				case 1:
					d["xpath"] = map[string]any{"$merge": map[string]any{"$match": pat, "$path": "h0"}, "own": 1}
				case 2:
					d["xshort"] = map[string]any{"$replace": []any{pat, "t0"}}
				default:
					d["xlist"] = []any{"a", map[string]any{"$merge": map[string]any{"$match": pat, "$path": "t1"}}}
				}
			}
			merge(id, nil, d)
			base = append(base, id)
		}
		nc := 2 + g.N(6)
		for c := 0; c < nc && alive; c++ {
			switch r := g.N(11); {
			case r == 10 && len(base) > 1:
				// a layer for the first document only (the one the others refer to)
				merge(fmt.Sprintf("s%d.c%d", idx, c), base, map[string]any{"$match": map[string]any{"name": "d0"},
					g.Pick([]string{"t0", "t1", "h0", "fresh"}): g.Pick([]string{"changed", "other"}) + fmt.Sprint(c)})
			case r < 3:
				docs := s.P.Documents()
				target := docs[g.N(len(docs))].Data
				var data any
				if g.P(0.5) {
					data = map[string]any{fmt.Sprintf("n%d", c): g.Tree(1)}
				} else {
					data = g.Patch(target, 1)
				}
				if m, ok := data.(map[string]any); ok {
					delete(m, "$match")
					delete(m, "$parent")
				}
				// in-process evaluation: keep $repeat counts small ($repeat: 2^31 is
				// 2^31 documents, not a purity question)
				data = tame(data)
				merge(fmt.Sprintf("s%d.c%d", idx, c), base, data)
			case r < 5:
				meta = append(meta, map[string]any{"call": "Documents"})
				lines = append(lines, J(map[string]any{"ev": "Documents", "docs": s.Docs()}))
			default:
				format := g.Pick([]string{"json", "yaml", "json-pretty", "docs"})
				if sessDebug != nil {
					sessDebug("output " + format)
				}
				var o real.Outcome
				var outs []any
				sha := ""
				if format == "docs" {
					o, outs = s.OutputDocuments()
				} else {
					var b []byte
					if g.P(0.4) {
						// the same through OutputToWriter
						var buf bytes.Buffer
						wf := format
						if format == "json-pretty" && g.P(0.5) {
							wf = "" // OutputToWriter's default format is json-pretty: same bytes
						}
						o = real.Guard(func() error { return s.P.OutputToWriter(&buf, wf) })
						b = buf.Bytes()
					} else {
						o, b = s.Output(format)
					}
					if o.OK {
						h := sha256.Sum256(b)
						sha = hex.EncodeToString(h[:])
						// the abstract outputs come from a separate observation
						o, outs = s.OutputDocuments()
					}
				}
				if outs == nil {
					outs = []any{}
				}
				meta = append(meta, map[string]any{"call": "Output", "format": format})
				lines = append(lines, J(map[string]any{"ev": "Output", "format": format, "env": gen.Env,
					"ok": o.OK, "err": o.Class, "outs": outs, "sha": sha}))
				lines = append(lines, J(map[string]any{"ev": "Documents", "docs": s.Docs()}))
			}
		}
	})
	return Sess{Lines: lines, Meta: map[string]any{"calls": meta}}
}

func C19(r *Run) {
	st := modelHistories(r, "C19", r.Pick(4, 5))
	r.Logf("model: %d states, %d histories replayed", st.States, st.Replayed)
	g := gen.New(r.Seed*15485863 + 19)
	n := r.Pick(1500, 30000)
	sessions := make([]Sess, n)
	distinct := map[string]bool{}
	gb := gen.New(r.Seed*15485863 + 100019).Big()
	for i := range sessions {
		if i%15 == 14 {
			sessions[i] = puritySession(gb, i)
		} else {
			sessions[i] = puritySession(g, i)
		}
		distinct[string(J(sessions[i].Meta))] = true
		if i%2000 == 1999 {
			r.Logf("  %d sessions generated", i+1)
		}
	}
	r.Logf("generated %d sessions", n)
	res := r.Validate("C19", sessions, nil)
	for _, b := range res.Bad {
		r.Violate(fmt.Sprintf("call history: event %d: %s", b.Event, b.Why),
			map[string]any{"kind": "trace", "events": Lines(sessions[b.Session]), "event": b.Event})
	}
	r.Sample(sessions[0].Meta)
	r.modelCov(st, []string{"ObservationIsPure", "TypeOK"})
	r.Cov["traces_validated_against_impl"] = len(sessions)
	r.Cov["trace_events"] = res.Events
	r.Cov["trace_events_compared"] = res.Checked
	r.Cov["trace_events_unmodelled"] = res.Undef
	r.Cov["evaluations"] = len(sessions)
	r.Cov["distinct_nontrivial"] = len(distinct)
	r.Cov["rule"] = "model: every call history up to the bound over the MC_Parser C19 alphabet, each replayed on one live Parser; traces: random histories of up to 8 calls over generated directive-laden documents; distinct = distinct call sequences"
	r.Cov["checker_cmd"] = first(res.Cmds)
}
