#!/usr/bin/env python3
"""Regenerates /verif/MANIFEST.json from the table below (one entry per built check)."""
import json, sys
V = '/verif'
props = [json.loads(l) for l in open(V + '/properties.jsonl')]

# id -> (category, text, note, technique, design_ref)
BUILT = {
 'C01': ('model_checking',
   'TLC checks the declarative statement of the documented layering rules (BklProps!C01Props: MergeIsDocumented, Preserved, Concat, ScalarWins, DeleteRemoves, ReplaceIsChild) on every (document, patch) pair of the bounded chain model MC_Merge (chains of up to 4 layers, the chain is part of the state) and emits every explored transition with its whole chain; each chain is replayed on ONE live Parser through MergeDocument, so that state shared between positions by earlier layers takes part. In the other direction thousands of random 2-4 layer chains, generated relative to the real merged state, are recorded from the real library and validated event by event against the Parser machine of the specification (BklTrace). Small-scope exhaustive plus sampled: the rules are per-node case analyses, so small trees reach every case.',
   'Trusts TLC, the tv projection between Go values and tagged trees, and that MergeDocument+Documents expose the merge result. Integral-valued floats are outside the generated domain.',
   'TLA+ spec (BklMerge/BklParser/BklProps) + TLC bounded model with transition replay on the code + TLC trace validation of recorded runs', '6 C01'),

 'C02': ('model_checking',
   'TLC explores every call history (exhaustive to the stated length) of the Parser machine over the C02 alphabet (base streams of 1-3 documents, patches with $match absent / {} / pattern / $invert / null / miss, parents = base layer or previous patch) with the history kept in the state, asserts OrderPreserved, OnlyTargetsChange, AsIfAlone and AppendIsPatch on every step, and prints each history; the harness drives ONE live Parser along each history and compares Documents() after every call. Random streams (1-4 base documents, 1-3 layers of 1-3 documents) recorded from the real library are validated call by call against the same machine, and the same kind of streams written as multi-document layer files (a <- a.b <- a.b.c) are run through the real bkl binary and validated against RunLayers together with their step logs.',
   'Trusts TLC, the tv projection and the harness file emitters.',
   'TLA+ Parser machine (BklParser) + TLC bounded history model (MC_Parser, family C02) replayed on live Parsers + TLC trace validation', '6 C02'),
 'C19': ('model_checking',
   'TLC explores every interleaving (exhaustive to the stated length) of MergeDocument / Documents / OutputDocuments / Output calls over documents using $merge, $replace, $repeat, interpolation and $output, checks the action property ObservationIsPure, and prints each history with the expected state and outputs after every call; the harness drives one live Parser per history and compares Documents(), the outputs and the output bytes of repeated calls. Random histories (up to 8 calls, generated directive-laden documents, three output formats) recorded from the real library are validated by TLC: outputs must equal the evaluation of the merged state, Documents() must equal the merged state, and repeated output calls on one state must have equal digests.',
   'Trusts TLC and the tv projection; $encode/$decode documents are exercised by C14, OutputToWriter/OutputToFile by C05 (they wrap Output).',
   'TLA+ Parser+evaluator machine + TLC bounded history model (MC_Parser, family C19) replayed on live Parsers + TLC trace validation with digest history', '6 C19'),

 'C06': ('model_checking',
   'TLC enumerates every string of length <= Bound over {$ a { } : . "} plus 31 directive tokens at 11 positions (value and key, nested, in lists) and asserts the identity law for plain strings, the escape law Eval(Escape(d)) = d for all of them, and the layered escape law; every case is replayed on the real library. Random trees over a $-rich alphabet (unicode lower-case letters included) are evaluated by the real library, and TLC checks that specification, code and the independently computed expectation (nulls dropped / original / overlay) coincide.',
   'Trusts TLC and the tv projection; keys that collide after un-escaping are outside the domain (the driver escapes injectively).',
   'TLA+ evaluator spec + TLC bounded universe (MC_Eval C06) with per-case replay + TLC trace validation with law expectations', '6 C06'),
 'C07': ('model_checking',
   'TLC enumerates 15 tokens ($required, known / unknown / misplaced directives) at 12 lower-layer positions x 14 upper layers, asserts NoMarker on every successful evaluation of the specification, and every chain is replayed on the real library. Random 2-3 layer chains with markers injected are recorded from the library and validated; TLC additionally evaluates NoMarker on the OBSERVED outputs.',
   'Trusts TLC and the tv projection. YAML anchors duplicating a marker are covered by the format checks (C04).',
   'TLA+ spec + TLC bounded universe (MC_Eval C07) with replay + trace validation with the NoMarker law on observed outputs', '6 C07'),
 'C10': ('model_checking',
   'TLC asserts the inline law on 22 reference forms (map / list / string, dotted and list paths, keys with dots, chains, hidden templates, cross-document long and short forms), target-unchanged, and errors for 14 dangling / ambiguous forms; all cases replayed on the library. The driver picks random targets and non-overlapping hosts in random documents and evaluates the reference form; the expectation is the real evaluation of the same document with the value written inline, and TLC checks specification = code = expectation.',
   'Trusts TLC and tv. Reference paths are identifier-like (the YAML parse of the path string is the identity). One shape is a listed known finding (c10-host-nonmap).',
   'TLA+ spec + TLC bounded universe (MC_Eval C10) with replay + metamorphic trace validation (reference vs inline)', '6 C10'),
 'C11': ('model_checking',
   'TLC asserts the output law (outputs = bag of marked subtrees, stripped and hidden; no $output key survives; marker entries with extra keys are errors) on all 3^4 marker placements over a 4-container shape, 2-document streams and nested list markers, each replayed on the library. Random marked trees are evaluated by the library and TLC evaluates the declarative Expected11 on the observed outputs.',
   'Trusts TLC and tv. The order of outputs is compared with the specification (which follows the code) and as a bag with the declarative law. A marked map that is a direct list entry is a listed known finding (c11-map-in-list).',
   'TLA+ spec + declarative output law (BklProps Expected11) + TLC bounded universe with replay + trace validation', '6 C11'),
 'C12': ('model_checking',
   'TLC asserts the repeat law against hand-substituted copies for counts 0..Bound at document level, named pairs (lexicographic product), list- and map-nested forms, nested repeats inside repeats, root lists, counts overridden by an upper layer and 8 non-integer counts; each case replayed. The driver generates random bodies with an independent hand substitution as expectation; TLC checks specification = code = expectation.',
   'Trusts TLC and tv; counts above 100 are outside the modelled domain.',
   'TLA+ spec + TLC bounded universe (MC_Eval C12) with replay + trace validation with hand-substituted expectations', '6 C12'),
 'C13': ('model_checking',
   'TLC asserts the interpolation law (literal segments interleaved with formatted values; missing reference or unset variable is an error; $env always a string, also in keys; nested templates) on 653 template cases, each replayed on the library with a controlled environment. The driver builds templates of 0-4 literal segments and 0-4 references with look-alike environment values; the expected string is assembled independently and TLC checks specification = code = expectation.',
   'Trusts TLC and tv. Environment values containing $ forms are a listed known finding (c13-env-dollar).',
   'TLA+ spec + TLC bounded universe (MC_Eval C13) with replay + trace validation with hand-assembled expectations', '6 C13'),

 'C03': ('model_checking',
   'TLC evaluates the resolver (BklFiles as a function, BklResolver as a small-step machine with one action per step the program reports in its -v log; invariants StackIsChain, NoFileTwiceOnStack, ParentsBeforeChild, LoadedBeforeMerged on every intermediate state and RefinesRunLayers at the end) composed with the Parser machine on every layout of the bounded model MC_Files (filename chains of depth 1-4 under every rotation of 5 extensions, virtual inputs, every missing layer, the same chains written with $parent, 15 $parent forms, $parent in a second document, symlinks, several inputs with and without -P, diamonds, equal file names in two directories, layers read from standard input), asserts BaseFirst / ParentEqFilename / MissingIsError / SkipParents on the order lists, and each layout is materialised in a fresh directory and run through the real bkl -v, whose output and step log must equal those of the specification. Random layouts (two chains, depth <= 4, mixed extensions, all $parent forms, two-document files, symlinked and virtual inputs, -P) are run through the real binary and validated by TLC against RunLayers and, step by step, against the small-step resolver.',
   'Trusts TLC, the tv projection and the harness file emitters (encoding/json, yaml.v3, go-toml used as writers). Layouts where two files provide one layer name are excluded, as the property states. A symlink keeps its target\'s extension (the format is taken from the name).',
   'TLA+ resolver+Parser machines (BklFiles) + TLC bounded layout model with replay on the real binary + TLC trace validation of recorded runs', '6 C03'),
 'C18': ('model_checking',
   'TLC evaluates the resolver with a root ([lexical, real] pair, os.Root rules: no escape through .., absolute links or links leaving the root) on the MC_Files C18 layouts and asserts Confined (every content read inside the root), EscapesFail and NonInterference (the run on the file system with everything outside the root removed gives the same result); each layout is run through the real binary under strace -f -y (content reads of any path outside the root are violations) and twice more with the outside files rewritten / deleted. Random layouts (11 $parent values, 9 link targets, 6 directory links, 10 inputs, 4 root spellings) are run the same way and validated by TLC, including the set of files read; library runs exercise nested SetRoot calls, also through directory links.',
   'Trusts strace to show every content read (read/pread/readv/mmap with resolved paths). Existence probes (stat, glob) outside the root are not content reads. go1.24.0 os.Root panics on OpenRoot("..") (stdlib defect, recovered by the harness and counted as a failed call).',
   'TLA+ resolver machine with root confinement + TLC bounded model with replay under strace + non-interference reruns + TLC trace validation', '6 C18'),

 'C08': ('model_checking',
   'The termination protocol of a tool invocation is a two-state machine in the specification (BklCli!ProtocolOK: exit 0, or non-zero exit with empty stdout and a diagnostic on stderr; a panic, signal, timeout or partial output is not a state). TLC (a) evaluates all 17^3 reference graphs on three subtrees (every reference form, cycles included), asserts StrictCycleIsError and AcyclicNeverReportsCycle, and every graph is evaluated through the real CLI and compared; (b) validates the protocol on every process recorded by the drivers: the repository\'s fuzz corpus and fixtures pushed through the whole pipeline, generated directive-laden documents with type-confused arguments in three formats plus byte mutations, raw byte strings as JSON/TOML, and all 64 $parent graphs on three files - each through bkl (three output formats), bklr, bkld and bkli under a timeout.',
   'For raw byte strings the specification only enforces the protocol (it cannot say whether bytes are valid TOML). A timeout is confirmed by a second, solitary run with four times the budget before it counts. YAML is not offered raw bytes (the property excludes it; upstream yaml.v3 issue). One listed known finding (c08-branching-cycle).',
   'TLA+ protocol machine + reference-graph universe (MC_Eval C08) replayed through the CLI + TLC trace validation of recorded processes (exploration for raw inputs)', '6 C08'),

 'C09': ('model_checking',
   'In the specification every machine is a function, so "every run conforms" implies "all runs agree" on abstract outputs; byte identity is added with the history variable `firsts` of the trace specification (first status and digest per input; every later Repeat event must equal it). The driver evaluates each input once against the specification (Eval event), 5 times in one process, from 16 goroutines at once in a race-detector build (a race report is a violation) and 3x2 times in fresh bkl processes; TLC validates all runs. Inputs: wide maps through tolist/values, computed keys colliding with literal siblings, many outputs, named repeat products, self-containing root merges, generated directive-laden streams.',
   'Interleavings of the real goroutines are whatever the Go scheduler and -race produce in the run: sampled, not enumerated (DESIGN.md section 8). Trusts TLC and tv.',
   'TLA+ trace validation with a first-run history variable + race-detector build + fresh-process reruns (exploration of schedules)', '6 C09'),
 'C20': ('model_checking',
   'TLC evaluates the wrapper machine (BklCli!WrapOp) on every argument vector of length <= MaxArgs over 19 argument kinds (among them one base name in two directories and a plain name whose parent comes from $parent) on a fixed directory, asserts OnlyBklFilesChange / UntouchedByteForByte / FailingFileMeansNoExec, and every vector is run through the real bklb (symlinked as probeb) or kubectl-bkl with a probe program on PATH that records its argv and the content of file arguments. Random directories (layers in mixed formats) with random vectors of 0-8 arguments are run the same way and validated by TLC; substituted files are decoded by the independent decoder (Python json / PyYAML core schema / tomllib) of the argument\'s extension and compared with the evaluation computed by the specification.',
   'Trusts the independent decoders and the probe script. Arguments that denote standard input (-.yaml) are not generated.',
   'TLA+ wrapper machine + TLC bounded argument-vector model with replay on the real binaries + TLC trace validation', '6 C20'),

 'C15': ('model_checking',
   'bkld has freedom in its answer, so it is specified by the CONTRACT DiffOK(base, target, L): the layer L is accepted on top of the base and base + L evaluates to exactly the target, using the specification\'s own Merge/Eval; EmptyLayerWhenSame when base = target. TLC enumerates a base and every target one edit away (two in the deeper bound, both directions) over the property\'s edit catalogue and evaluates the contract on a transcription of the algorithm (design exploration); the harness runs the REAL bkld on every pair and on random edited trees in mixed formats, decodes the emitted layer with the independent decoder, TLC judges it with the contract, and the real bkl applies it to the base (its output must be the target).',
   'Trusts TLC, tv and the independent decoders. Trees are map-rooted, null-free and $-free as the property states; tool output is requested as JSON or YAML.',
   'TLA+ contract (BklTools!DiffOK) evaluated by TLC on the real tool output + bounded edit universe (MC_Tools) + real bkl application', '6 C15'),
 'C16': ('model_checking',
   'bkli is specified by the CONTRACT IntersectOK (Common: every value of the result occurs in every input, list entries as a multiset; MarksDiffering: shared fields with differing values are $required and equal ones are kept; Maximal: nothing shared is dropped), SelfIntersect, and the migration law DiffOK(result, input_i, bkld(result, input_i)) for every input. TLC enumerates every ordered pair (deeper: triples) of documents one edit away from a common ancestor plus unrelated ones; the harness runs the REAL bkli on them and on random edited families in mixed formats and argument orders, then the real bkld + bkl migration per input; TLC judges all real outputs with the contracts.',
   'Trusts TLC, tv and the independent decoders. Map-rooted, null-free, $-free trees; JSON/YAML tool output.',
   'TLA+ contracts (BklTools!IntersectOK, DiffOK) evaluated by TLC on real tool outputs + bounded universe (MC_Tools) + real migration workflow', '6 C16'),
 'C17': ('model_checking',
   'bklr is specified exactly: its output is Skeleton(merged layers) (declarative: the $required positions and the containers leading to them). TLC asserts on all 2^8 placements (among them below a non-directive "$Up" key, markers two levels below a list entry and in a list nested in a list) x 9 upper layers that the transcribed algorithm equals the declarative Skeleton, that the skeleton contains only markers and containers, is idempotent, and is non-empty exactly when evaluation fails; every case is run through the real bklr (output, run on its own output) and bkl (required-field error). Random trees with $required at random map values and list entries, 1-3 layers in mixed formats, are run the same way and judged by TLC.',
   'Trusts TLC, tv and the independent decoders; inputs carry no directives other than $required (as the property states for the agreement with bkl).',
   'TLA+ exact specification (BklTools!Skeleton) + TLC bounded placements with replay on bklr and bkl + trace validation', '6 C17'),

 'C05': ('model_checking',
   'The format an invocation writes is a function of the specification (BklCli!ChooseFormat: -f, else the -o extension, else the first input\'s possibly virtual extension; invalid -f values and unknown -o extensions are errors); the byte-level encoders are environment functions. Every Emit event carries the stream that was evaluated, the bytes written, what bkl itself reads back from those bytes (through a file and MergeFile) and what the independent parsers (Python json, PyYAML with a YAML 1.2 core-schema resolver, tomllib) read back. TLC checks: the evaluation of the stream (specification) = bkl\'s re-read = the independent re-read in the format ChooseFormat demands, and compact / indented JSON and JSON-vs-YAML/TOML are told apart. Drivers: all 8x8x6 combinations of -f, -o extension and input extension on the real CLI, and random streams of 1-4 documents over 90 look-alike strings (values and keys), 64-bit integers, doubles, empty and nested containers through Output / OutputToWriter / OutputToFile in six formats and one CLI route each.',
   'TLA+ cannot express the YAML/TOML/JSON grammars: that the bytes are standard is delegated to the independent decoders (trusted base). TOML streams are map-rooted and separated by --- lines (bkl\'s convention). Strings are printable, BMP, without control characters.',
   'TLA+ format-selection machine + TLC trace validation of round-trip events with independent decoders (translation validation of the encoders)', '6 C05'),
 'C14': ('model_checking',
   'TLC checks on 16 values x every transform and stack (<= Bound) that a list of transforms is a left fold, malformed arguments are errors, flags = tolist:= then prefix:--, and the values / join / prefix / flatten laws; every case not needing a byte codec is replayed on the library. base64, sha256 and the json/yaml/toml texts are environment functions of the specification: when an evaluation needs one, TLC reports the (name, argument) it needs, the harness answers with crypto/sha256, encoding/base64, the independent decoders (dec:*), or for enc:* bkl\'s public encoder whose text the independent decoder must read back as the encoded value (Codec events), and validation is repeated until no request is open. The driver adds random values with random stacks of up to three transforms, malformed arguments, and the inverse law $decode(f, $encode(f, v)) = v over two chained evaluations for six format names.',
   'Values handed to $encode are $-free (encoding precedes un-escaping); what the TOML encoder prints for non-map values is outside the property (TOML cannot represent them).',
   'TLA+ evaluator with codecs as environment functions answered by independent implementations + TLC bounded transform universe with replay + trace validation', '6 C14'),

 'C04': ('model_checking',
   'In the specification the format of a layer is not an input of any rule: the file system maps a path to parsed documents, the extension only names the decoder. FormatFree is therefore checked as refinement: TLC evaluates a numeric base layer x 20 upper layers ($match / $delete patterns with 32-bit-overflowing, 64-bit and float ids, same-value overrides of integers, floats, extremes and denormals, $repeat, document-level $match on numbers) x 3 third layers under ALL 3^n assignments of json/yaml/toml, asserts that every assignment equals the all-JSON writing, and each layout is run through the real bkl. Random numeric layer sets (1-3 layers, 1-2 documents) are written under all 3^n assignments, a third of them in a style variant (YAML flow, anchors/aliases, merge keys, plain number-like keys, markers with comments; TOML dotted keys, inline tables, +++ separators; CRLF line endings) that the independent decoder confirms to mean the same tree, and TLC validates every run against the format-free RunLayers. The document structure of a layer file is a specification of its own (BklStream: a machine over lines with the laws MarkerSpellingFree, CommentsFree, NothingLost, FormatFree): TLC enumerates every sequence of up to 4 (thorough: 5) lines over eight kinds of line, and the real Parser reads each as YAML and as TOML with LF and CRLF endings and must hold exactly the documents the specification reads. A corpus of 41 hand-written YAML / TOML / JSON texts (merge keys and lists of them, anchors, core-schema scalars, block scalars, tables, arrays of tables) is judged through the independent decoders.',
   'Trusts the harness emitters (self-checked by the independent decoders for the style variants). Integral-valued floats are excluded (JSON cannot mark them); TOML layers are map-rooted and null-free, without date/time literals.',
   'TLA+ format-free resolver/evaluator + TLC bounded model over all format assignments with replay + trace validation of recorded runs', '6 C04'),
}
# the evaluator families also carry their share of the pair universe of MC_Eval
PAIR_NOTE = (' The family also holds its share of the PAIR universe of MC_Eval: 18 feature fragments (every reference form, both $repeat forms, both $output markers, '
             'both $encode forms, a template, $required, $value, an escape, $delete, a stray repeat variable, plain containers) meet each other as siblings, nested, next to a reference, '
             'as two layers of one key and across two stream documents, under eleven kinds of upper layer, and in triples in the deeper bound; the library must agree with the specification on each.')
for _k in ('C06', 'C07', 'C10', 'C11', 'C12', 'C13', 'C14'):
    _t = BUILT[_k]
    BUILT[_k] = (_t[0], _t[1] + PAIR_NOTE) + tuple(_t[2:])

PENDING = 'check not built yet (work in progress; DESIGN.md section 6 describes the planned decision procedure)'

checks, na = [], []
for p in props:
    i = p['id']
    if i in BUILT:
        cat, text, note, tech, ref = BUILT[i]
        checks.append({
            'property_id': i,
            'quick_cmd': f'bin/check {i} quick',
            'thorough_cmd': f'bin/check {i} thorough',
            'evidence_file': f'/verif/evidence/{i}.json',
            'replay_cmd_template': f'bin/check {i} --replay {{path}}',
            'engine': 'tlc+bklverif',
            'level_claimed': {'category': cat, 'text': text, 'design_ref': 'DESIGN.md section ' + ref},
            'level_note': note,
            'technique': tech,
        })
    else:
        na.append({'property_id': i, 'reason': PENDING})
m = {
 'version': 1,
 'setup_cmd': 'bin/setup',
 'hooks': {'guard': 'verif', 'enable': 'no source hooks exist: every check drives the public API and the built binaries (DESIGN.md 4.1); the tag is reserved',
           'baseline_off_cmd': 'cd /repo && go test -mod=mod -json -vet=off -count=1 -timeout 25m ./...',
           'source_commits': [], 'add_only': True},
 'engines': [{'name': 'tlc+bklverif', 'path': '/verif/harness', 'serves_properties': [c['property_id'] for c in checks],
              'kind_free_text': 'TLA+ specification in /verif/spec checked by TLC 1.8 (bounded models + trace validation); Go harness binds it to the code in both directions'}],
 'checks': checks,
 'not_applicable': na,
 'notes': 'Exit 2 from a check means the machinery failed (build, TLC, driver); it is never a verdict. KNOWN_FINDINGS.txt lists repaired and recorded defects.',
}
json.dump(m, open(V + '/MANIFEST.json', 'w'), indent=1)
print('checks:', [c['property_id'] for c in checks], 'pending:', len(na))
