#!/usr/bin/env python3
import json,sys
def plain(t):
    if not (isinstance(t,list) and len(t)==2 and isinstance(t[0],str)): return t
    tag,p=t
    if tag=='m': return {k:plain(v) for k,v in (p.items() if isinstance(p,dict) else [])}
    if tag=='l': return [plain(x) for x in p]
    if tag=='n': return None
    if tag=='s': return p
    if tag=='b': return p=='true'
    if tag=='i': return int(p)
    if tag=='f': return float(p)
    return (tag,p)
for f in sys.argv[1:]:
    r=json.load(open(f)); c=r['case']; print('==',f,r['why'])
    if c.get('kind')=='trace':
        for i,e in enumerate(c['events'][:c['event']+1]):
            mark='>>' if i==c['event'] else '  '
            if e['ev']=='MergeDocument':
                print(mark,i,'merge',e['patch']['id'],e['patch']['parents'],json.dumps(plain(e['patch']['data'])),'->',e['ok'],e.get('err'))
            elif e['ev'] in('Output','Eval'):
                if 'docs' in e: print(mark,i,e['ev'],'docs',json.dumps([plain(d['data'] if isinstance(d,dict) else d) for d in e['docs']]))
                print(mark,i,e['ev'],e.get('format'),'ok',e['ok'],e.get('err'),json.dumps([plain(o) for o in e['outs']]))
            elif e['ev']=='Documents':
                print(mark,i,'docs',json.dumps([plain(d['data']) for d in e['docs']]))
            else: print(mark,i,json.dumps(e)[:300])
    else:
        print(json.dumps(c)[:3000])
