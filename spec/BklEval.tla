----------------------------- MODULE BklEval -----------------------------
(***************************************************************************)
(* The evaluator: Document.Process and Parser.outputDocument.              *)
(*   phase 3  P1          process1.go, get.go   ($merge, $replace)         *)
(*   phase 4  RepeatDoc   repeat.go             (document level $repeat)   *)
(*   phase 5  P2          process2.go           ($"", $env, $repeat,       *)
(*                                               $encode, $decode, $value) *)
(*   phase 6  FindOutputs / FilterOutput / Validate / Finalize             *)
(* One operator per Go function, same case order.  Value semantics: the    *)
(* only in-place effect that is modelled is the documented one (fixture    *)
(* merge-race): a map carrying a `$merge` key is updated *in the document* *)
(* with the merged content, so that later references see it.  It is        *)
(* modelled as a functional update of the threaded document D.             *)
(*                                                                         *)
(* ctx == [docs   : Seq(tree)   the raw data of all documents of the parser*)
(*         fuel   : Nat         the code's depth guard (1000 there)        *)
(*         vars   : [STRING -> tree]                                       *)
(*         codec  : Seq([name, in, out])  environment functions: values of *)
(*                  base64/sha256/format encoders and decoders supplied by *)
(*                  independent implementations]                           *)
(* Err("undef") means "outside the modelled domain" (never a verdict).     *)
(* A codec value missing from ctx.codec is reported as err = "need" with    *)
(* the (name, argument) the environment has to supply: the harness answers  *)
(* with an independent implementation and validation is repeated.           *)
(***************************************************************************)
EXTENDS BklParser

CONSTANT MaxFuel

OkD(v, d) == [ok |-> TRUE, v |-> v, d |-> d]
NoLoc     == [known |-> FALSE, p |-> <<>>]
Loc(p)    == [known |-> TRUE, p |-> p]
Sub(loc, k) == IF loc.known THEN Loc(Append(loc.p, k)) ELSE NoLoc

RECURSIVE SetPath(_, _, _)
SetPath(D, p, v) ==
  IF Len(p) = 0 THEN v
  ELSE IF IsMap(D) /\ Has(D, p[1]) THEN Put(D, p[1], SetPath(At(D, p[1]), Tail(p), v))
  ELSE D
Upd(D, loc, v) == IF loc.known THEN SetPath(D, loc.p, v) ELSE D

---------------------------------------------------------------------------
(* get.go *)

Letters == {"a","b","c","d","e","f","g","h","i","j","k","l","m","n","o","p","q","r","s","t","u","v","w","x","y","z",
            "A","B","C","D","E","F","G","H","I","J","K","L","M","N","O","P","Q","R","S","T","U","V","W","X","Y","Z"}
Digits  == {"0","1","2","3","4","5","6","7","8","9"}
PathSafe == Letters \cup Digits \cup {"_", "$", ".", ":", "-", "/", "{"}   \* "{" inside a plain scalar is an ordinary character
(* yaml.v3 resolves only these plain words to non-strings (the YAML 1.1    *)
(* yes/no/on/off/y/n are booleans only for typed targets)                  *)
YamlWords == {"true","false","null","True","False","Null","TRUE","FALSE","NULL"}

(* the printable ASCII characters: everything else in a string is a non-ASCII *)
(* character, which YAML reads as an ordinary character of a plain scalar    *)
AsciiPrintable == Letters \cup Digits \cup {" ","!","\"","#","$","%","&","'","(",")","*","+",",","-",".","/",":",";","<","=",">","?","@",
                                              "[","\\","]","^","_","`","{","|","}","~"}
NonAscii(c) == c \notin AsciiPrintable
(* the path strings on which yaml.Unmarshal is the identity (a subset) *)
PlainPath(s) ==
  /\ Len(s) > 0
  /\ (Char(s, 1) \in Letters \cup {"_", "$"} \/ NonAscii(Char(s, 1)))
  /\ \A i \in 1..Len(s) : (Char(s, i) \in PathSafe \/ NonAscii(Char(s, i)))
  /\ Char(s, Len(s)) # ":"
  /\ s \notin YamlWords

RECURSIVE GetPath(_, _)
GetPath(obj, parts) ==
  IF Len(parts) = 0 THEN Ok(obj)
  ELSE IF IsMap(obj) /\ Has(obj, parts[1]) THEN GetPath(At(obj, parts[1]), Tail(parts))
  ELSE Err("refnotfound")

GetCrossDoc(ctx, pat) ==
  LET hits == {i \in DOMAIN ctx.docs : Match(ctx.docs[i], pat)} IN
  IF hits = {} THEN Err("nomatch")
  ELSE IF Cardinality(hits) > 1 THEN Err("multimatch")
  ELSE Ok(ctx.docs[CHOOSE i \in hits : TRUE])

GetPathFromList(obj, ctx, q) ==
  LET cross == Len(q) > 0 /\ (IsMap(q[1]) \/ IsList(q[1]))
      doc   == IF cross THEN GetCrossDoc(ctx, q[1]) ELSE Ok(obj)
      rest  == IF cross THEN Tail(q) ELSE q
  IN IF ~doc.ok THEN doc
     ELSE IF \E i \in DOMAIN rest : ~IsStr(rest[i]) THEN Err("invalidtype")
     ELSE GetPath(doc.v, [i \in DOMAIN rest |-> Pay(rest[i])])

(* the code reads the reference as YAML: a text that opens a flow mapping and *)
(* never closes it ("{n") does not parse, which is an error of the lookup    *)
UnclosedFlow(s) == Len(s) > 0 /\ Char(s, 1) = "{" /\ \A i \in 1..Len(s) : Char(s, i) # "}"
(* a double- or single-quoted scalar without escapes or inner quotes is the text between its  *)
(* quotes: the only way a string path can name a key that YAML would read as a number, a    *)
(* boolean or null (`"404"`, `'true'`); the text is then split on "." like any other path    *)
QuotedPath(s) ==
  /\ Len(s) >= 3 /\ Char(s, 1) \in {"\"", "'"} /\ Char(s, Len(s)) = Char(s, 1)
  /\ \A i \in 2..(Len(s) - 1) : Char(s, i) \notin {"\"", "'", "\\"}
(* plain scalars that YAML reads as an integer, a boolean or null are not references *)
IntText(s) ==
  LET d == IF Len(s) > 1 /\ Char(s, 1) = "-" THEN SubSeq(s, 2, Len(s)) ELSE s IN
  /\ Len(d) >= 1 /\ Len(d) <= 18 /\ \A i \in 1..Len(d) : Char(d, i) \in Digits
  /\ (Len(d) = 1 \/ Char(d, 1) # "0")
NonStringScalar(s) == s \in YamlWords \cup {"~"} \/ IntText(s)
GetPathFromString(obj, ctx, s) ==
  IF PlainPath(s) THEN GetPath(obj, Split(s, "."))
  ELSE IF QuotedPath(s) THEN GetPath(obj, Split(SubSeq(s, 2, Len(s) - 1), "."))
  ELSE IF NonStringScalar(s) THEN Err("invalidtype")
  ELSE IF UnclosedFlow(s) THEN Err("yamlerror")
  ELSE Err("undef")

RECURSIVE Get(_, _, _)
Get(obj, ctx, ref) ==
  IF IsStr(ref) THEN GetPathFromString(obj, ctx, Pay(ref))
  ELSE IF IsList(ref) THEN GetPathFromList(obj, ctx, Elems(ref))
  ELSE IF IsMap(ref) THEN
       IF ~Has(ref, "$match") THEN Err("missingmatch")
       ELSE LET doc == GetCrossDoc(ctx, At(ref, "$match")) IN
            IF ~doc.ok THEN doc
            ELSE IF Has(ref, "$path") THEN Get(doc.v, ctx, At(ref, "$path"))
            ELSE doc
  ELSE Err("invalidtype")

---------------------------------------------------------------------------
(* process1.go *)
RECURSIVE P1(_, _, _, _), P1Map(_, _, _, _), P1Keys(_, _, _, _, _, _),
          P1List(_, _, _), P1Elems(_, _, _)

P1String(D, s, ctx) ==
  IF HasPrefix(s, "$merge:") THEN
     LET in == Get(D, ctx, S(DropPrefix(s, "$merge:"))) IN
     IF ~in.ok THEN in ELSE P1(D, NoLoc, in.v, ctx)
  ELSE IF HasPrefix(s, "$replace:") THEN
     LET in == Get(D, ctx, S(DropPrefix(s, "$replace:"))) IN
     IF ~in.ok THEN in ELSE P1(D, NoLoc, in.v, ctx)
  ELSE OkD(S(s), D)

P1(D, loc, obj, ctx) ==
  IF ctx.fuel = 0 THEN Err("circular")
  ELSE LET c == [ctx EXCEPT !.fuel = @ - 1] IN
       IF IsMap(obj) THEN P1Map(D, loc, obj, c)
       ELSE IF IsList(obj) THEN P1List(D, obj, c)
       ELSE IF IsStr(obj) THEN P1String(D, Pay(obj), c)
       ELSE OkD(obj, D)

(* children of a map in sorted key order: value first, then key; null      *)
(* values are dropped; a key that evaluates to a non-string is an error    *)
(* (the pinned code panics there)                                          *)
P1Keys(D, loc, obj, ks, acc, ctx) ==
  IF Len(ks) = 0 THEN OkD(acc, D)
  ELSE
    LET k  == ks[1]
        rv == P1(D, Sub(loc, k), At(obj, k), ctx)
    IN IF ~rv.ok THEN rv
       ELSE IF IsNull(rv.v) THEN P1Keys(rv.d, loc, obj, Tail(ks), acc, ctx)
       ELSE LET rk == P1(rv.d, NoLoc, S(k), ctx) IN
            IF ~rk.ok THEN rk
            ELSE IF ~IsStr(rk.v) THEN Err("keynotstring")
            ELSE P1Keys(rk.d, loc, obj, Tail(ks), Put(acc, Pay(rk.v), rv.v), ctx)

P1Map(D, loc, obj, ctx) ==
  IF Has(obj, "$merge") THEN
     LET obj1 == Del(obj, "$merge")
         D1   == Upd(D, loc, obj1)
         in   == Get(D1, ctx, At(obj, "$merge"))
     IN IF ~in.ok THEN in
        ELSE LET nx == MergeMap(obj1, in.v) IN
             IF ~nx.ok THEN nx
             ELSE LET inPlace == IsNull(in.v) \/
                                 (IsMap(in.v) /\ ~(Has(in.v, "$replace") /\ At(in.v, "$replace") = True))
                  IN IF inPlace THEN P1(Upd(D1, loc, nx.v), loc, nx.v, ctx)
                     ELSE P1(D1, NoLoc, nx.v, ctx)
  ELSE IF Has(obj, "$replace") THEN
     LET nx == Get(D, ctx, At(obj, "$replace")) IN
     IF ~nx.ok THEN nx ELSE P1(D, NoLoc, nx.v, ctx)
  ELSE P1Keys(D, loc, obj, SortedKeys(obj), EmptyMap, ctx)

P1Elems(D, q, ctx) ==
  IF Len(q) = 0 THEN Ok(<<>>)
  ELSE LET r == P1(D, NoLoc, q[1], ctx) IN
       IF ~r.ok THEN r
       ELSE LET rest == P1Elems(D, Tail(q), ctx) IN
            IF ~rest.ok THEN rest
            ELSE Ok((IF IsNull(r.v) THEN <<>> ELSE <<r.v>>) \o rest.v)

P1List(D, obj, ctx) ==
  LET q      == Elems(obj)
      merges == SeqFilter(q, LAMBDA e : IsSingle(e, "$merge"))
      rest   == SeqFilter(q, LAMBDA e : ~IsSingle(e, "$merge"))
      merged == FoldRes(LAMBDA acc, m :
                          LET in == Get(D, ctx, At(m, "$merge")) IN
                          IF ~in.ok THEN in ELSE MergeList(acc, in.v),
                        L(rest), merges)
  IN IF ~merged.ok THEN merged
     ELSE LET pop == PopListMapValue(Elems(merged.v), "$replace") IN
          IF ~pop.ok THEN Err(pop.err)
          ELSE IF ~IsNull(pop.val) THEN
               LET nx == Get(D, ctx, pop.val) IN
               IF ~nx.ok THEN nx ELSE P1(D, NoLoc, nx.v, ctx)
          ELSE LET r == P1Elems(D, pop.rest, ctx) IN
               IF ~r.ok THEN r ELSE OkD(L(r.v), D)

Process1(data, ctx) == P1(data, Loc(<<>>), data, ctx)

---------------------------------------------------------------------------
(* repeat.go: returns Ok(sequence of [data, vars]) *)
IntVal(t)  == t   \* counts are kept as trees <<"i", "n">>

(* decimal strings of small naturals (repeat indices) *)
RECURSIVE NatStr(_)
DigitStr(n) == CASE n = 0 -> "0" [] n = 1 -> "1" [] n = 2 -> "2" [] n = 3 -> "3" [] n = 4 -> "4"
                 [] n = 5 -> "5" [] n = 6 -> "6" [] n = 7 -> "7" [] n = 8 -> "8" [] n = 9 -> "9"
NatStr(n) == IF n < 10 THEN DigitStr(n) ELSE NatStr(n \div 10) \o DigitStr(n % 10)

RECURSIVE StrNatFrom(_, _, _)
DigitVal(c) == CASE c = "0" -> 0 [] c = "1" -> 1 [] c = "2" -> 2 [] c = "3" -> 3 [] c = "4" -> 4
                 [] c = "5" -> 5 [] c = "6" -> 6 [] c = "7" -> 7 [] c = "8" -> 8 [] c = "9" -> 9
StrNatFrom(s, i, acc) == IF i > Len(s) THEN acc ELSE StrNatFrom(s, i + 1, acc * 10 + DigitVal(Char(s, i)))
(* value of a count: negative counts behave like zero; counts above the    *)
(* model bound are outside the modelled domain                             *)
CountOf(t) == IF HasPrefix(Pay(t), "-") THEN 0
              ELSE IF Len(Pay(t)) > 3 THEN 1000
              ELSE StrNatFrom(Pay(t), 1, 0)

VarPut(vars, k, v) == [x \in (DOMAIN vars) \cup {k} |-> IF x = k THEN v ELSE vars[x]]

(* n copies of every [data, vars] in ds, binding name to 0..n-1 (inner loop) *)
RepeatInt(ds, name, n) ==
  LET one(d) == [i \in 1..n |-> [data |-> d.data, vars |-> VarPut(d.vars, name, I(NatStr(i - 1)))]]
  IN FoldRes(LAMBDA acc, d : Ok(acc \o one(d)), <<>>, ds).v

RECURSIVE RepeatNames(_, _, _)
RepeatNames(ds, rs, names) ==
  IF Len(names) = 0 THEN Ok(ds)
  ELSE LET cnt == At(rs, names[1]) IN
       IF ~IsInt(cnt) THEN Err("invalidrepeat")
       ELSE IF CountOf(cnt) > 100 THEN Err("undef")
       ELSE RepeatNames(RepeatInt(ds, "$repeat:" \o names[1], CountOf(cnt)), rs, Tail(names))

RepeatGen(data, vars, v) ==
  IF IsInt(v) THEN
     IF CountOf(v) > 100 THEN Err("undef")
     ELSE Ok(RepeatInt(<<[data |-> data, vars |-> vars]>>, "$repeat", CountOf(v)))
  ELSE IF IsMap(v) THEN
     LET vars1 == [x \in (DOMAIN vars) \cup {"$repeat." \o k : k \in Keys(v)} |->
                     IF \E k \in Keys(v) : x = "$repeat." \o k
                     THEN At(v, CHOOSE k \in Keys(v) : x = "$repeat." \o k)
                     ELSE vars[x]]
     IN RepeatNames(<<[data |-> data, vars |-> vars1]>>, v, SortedKeys(v))
  ELSE Err("invalidrepeat")

RepeatDoc(data, vars) ==
  IF IsMap(data) /\ Has(data, "$repeat") THEN RepeatGen(Del(data, "$repeat"), vars, At(data, "$repeat"))
  ELSE IF IsList(data) THEN
     LET pop == PopListMapValue(Elems(data), "$repeat") IN
     IF ~pop.ok THEN Err(pop.err)
     ELSE IF ~IsNull(pop.val) THEN RepeatGen(L(pop.rest), vars, pop.val)
     ELSE Ok(<<[data |-> data, vars |-> vars]>>)
  ELSE Ok(<<[data |-> data, vars |-> vars]>>)

---------------------------------------------------------------------------
(* process2.go *)

(* fmt.Sprintf("%v", v) *)
RECURSIVE Fmt(_)
Fmt(t) ==
  IF IsNull(t) THEN "<nil>"
  ELSE IF IsMap(t) THEN
       LET ks == SortedKeys(t) IN
       "map[" \o JoinStr([i \in DOMAIN ks |-> ks[i] \o ":" \o Fmt(At(t, ks[i]))], " ") \o "]"
  ELSE IF IsList(t) THEN
       "[" \o JoinStr([i \in DOMAIN Elems(t) |-> Fmt(Elems(t)[i])], " ") \o "]"
  ELSE Pay(t)

CodecLookup(ctx, name, in) ==
  LET hits == {i \in DOMAIN ctx.codec : ctx.codec[i].name = name /\ ctx.codec[i]["in"] = in} IN
  IF hits = {} THEN [ok |-> FALSE, err |-> "need", need |-> [name |-> name, arg |-> in]]
  ELSE LET o == ctx.codec[CHOOSE i \in hits : TRUE].out IN
       IF o = <<"x", "error">> THEN Err("codec") ELSE Ok(o)

Formats == {"json", "jsonl", "json-pretty", "toml", "yaml", "yml"}

(* validate.go *)
DirErr(s) == IF s = "$required" THEN "required"
             ELSE IF DirectiveShaped(s) THEN "invaliddirective" ELSE ""
RECURSIVE Validate(_)
Validate(t) ==   \* "" when valid, else the error class
  LET bads == IF IsMap(t) THEN
                 {DirErr(k) : k \in Keys(t)} \cup {Validate(At(t, k)) : k \in Keys(t)}
              ELSE IF IsList(t) THEN {Validate(Elems(t)[i]) : i \in DOMAIN Elems(t)}
              ELSE IF IsStr(t) THEN {DirErr(Pay(t))}
              ELSE {""}
  IN IF "required" \in bads THEN "required"
     ELSE IF "invaliddirective" \in bads THEN "invaliddirective"
     ELSE ""

RECURSIVE P2(_, _, _), P2Map(_, _, _), P2List(_, _, _), P2String(_, _, _), P2StringD(_, _, _, _),
          Interp(_, _, _, _, _), EncodeAny(_, _, _), EncodeString(_, _, _),
          P2RepeatMapChildren(_, _, _, _, _), P2MapKeys(_, _, _, _, _), P2Elems(_, _, _)

(* ctx2 == ctx + [D : the document after phase 1 and $repeat removal] *)

GetWithVar(ctx, name) ==
  LET r == Get(ctx.D, ctx, S(name)) IN
  IF r.ok THEN r
  ELSE IF r.err = "undef" /\ ~HasPrefix(name, "$") THEN r
  ELSE IF name \in DOMAIN ctx.vars THEN Ok(ctx.vars[name])
  ELSE Err("varnotfound")

(* interpolation of the text between $" and ": scan for {...} left to right *)
Interp(s, from, acc, ctx, d) ==
  LET open == IndexFrom(s, "{", from) IN
  IF open = 0 THEN Ok(S(acc \o SubSeq(s, from, Len(s))))
  ELSE LET close == IndexFrom(s, "}", open + 1) IN
       IF close = 0 THEN Ok(S(acc \o SubSeq(s, from, Len(s))))
       ELSE LET name == SubSeq(s, open + 1, close - 1)
                v    == GetWithVar(ctx, name)
            IN IF ~v.ok THEN v
               ELSE LET v2 == IF IsStr(v.v) THEN P2StringD(Pay(v.v), ctx, d + 1, TRUE) ELSE v IN
                    IF ~v2.ok THEN v2
                    ELSE Interp(s, close + 1, acc \o SubSeq(s, from, open - 1) \o Fmt(v2.v), ctx, d)

(* process2String; nested string results of interpolation are evaluated    *)
(* again by the code without a depth guard (the pinned code overflows its  *)
(* stack on a self-referential template); the specification bounds the     *)
(* nesting by the same fuel and reports `circular`                         *)
P2StringD(s, ctx, d, nested) ==
  IF d > ctx.fuel THEN Err("circular")
  ELSE IF HasPrefix(s, "$\"") /\ HasSuffix(s, "\"") THEN
       LET inner == TrimSuffix(DropPrefix(s, "$\""), "\"") IN Interp(inner, 1, "", ctx, d)
  ELSE IF HasPrefix(s, "$env:") \/ s = "$repeat" THEN
       IF s \in DOMAIN ctx.vars THEN Ok(ctx.vars[s]) ELSE Err("varnotfound")
  ELSE Ok(S(s))
P2String(s, ctx, d) == P2StringD(s, ctx, 0, FALSE)

(* process2RepeatObjMap / List: v is the child map without its $repeat key *)
RepeatCount(r) == IF ~IsInt(r) THEN Err("invalidtype")
                  ELSE IF CountOf(r) > 100 THEN Err("undef") ELSE Ok(CountOf(r))

P2RepeatObjMap(v, k, r, ctx) ==
  LET n == RepeatCount(r) IN
  IF ~n.ok THEN n
  ELSE FoldRes(LAMBDA acc, i :
                 LET c  == [ctx EXCEPT !.vars = VarPut(@, "$repeat", I(NatStr(i - 1)))]
                     v2 == P2(v, c, 0)
                 IN IF ~v2.ok THEN v2
                    ELSE IF IsNull(v2.v) THEN Ok(acc)
                    ELSE LET k2 == P2(S(k), c, 0) IN
                         IF ~k2.ok THEN k2
                         ELSE IF ~IsStr(k2.v) THEN Err("keynotstring")
                         ELSE Ok(Put(acc, Pay(k2.v), v2.v)),
               EmptyMap, [i \in 1..n.v |-> i])

P2RepeatObjList(v, r, ctx) ==
  LET n == RepeatCount(r) IN
  IF ~n.ok THEN n
  ELSE FoldRes(LAMBDA acc, i :
                 LET c  == [ctx EXCEPT !.vars = VarPut(@, "$repeat", I(NatStr(i - 1)))]
                     v2 == P2(v, c, 0)
                 IN IF ~v2.ok THEN v2
                    ELSE IF IsNull(v2.v) THEN Ok(acc) ELSE Ok(Append(acc, v2.v)),
               <<>>, [i \in 1..n.v |-> i])

(* first pass of process2Map: expand children that carry $repeat *)
P2RepeatMapChildren(obj, ks, acc, ctx, x) ==
  IF Len(ks) = 0 THEN Ok(acc)
  ELSE LET k == ks[1]  v == At(obj, k) IN
       IF IsMap(v) /\ Has(v, "$repeat") THEN
          LET r == P2RepeatObjMap(Del(v, "$repeat"), k, At(v, "$repeat"), ctx) IN
          IF ~r.ok THEN r
          ELSE P2RepeatMapChildren(obj, Tail(ks),
                 M([y \in Keys(acc) \cup Keys(r.v) |-> IF Has(r.v, y) THEN At(r.v, y) ELSE At(acc, y)]), ctx, x)
       ELSE P2RepeatMapChildren(obj, Tail(ks), Put(acc, k, v), ctx, x)

P2MapKeys(obj, ks, acc, ctx, x) ==
  IF Len(ks) = 0 THEN Ok(acc)
  ELSE LET k  == ks[1]
           v2 == P2(At(obj, k), ctx, 0)
       IN IF ~v2.ok THEN v2
          ELSE IF IsNull(v2.v) THEN P2MapKeys(obj, Tail(ks), acc, ctx, x)
          ELSE LET k2 == P2(S(k), ctx, 0) IN
               IF ~k2.ok THEN k2
               ELSE IF ~IsStr(k2.v) THEN Err("keynotstring")
               ELSE P2MapKeys(obj, Tail(ks), Put(acc, Pay(k2.v), v2.v), ctx, x)

P2Encode(obj, ctx, v) ==
  LET o2 == P2(obj, ctx, 0) IN
  IF ~o2.ok THEN o2
  ELSE IF Validate(o2.v) # "" THEN Err(Validate(o2.v))
  ELSE EncodeAny(o2.v, ctx, v)

P2Decode(obj, ctx, v) ==
  IF ~IsStr(v) THEN Err("invalidtype")
  ELSE IF ~Has(obj, "$value") THEN Err("invalidtype")
  ELSE IF ~IsStr(At(obj, "$value")) THEN Err("invalidtype")
  ELSE IF Size(obj) > 1 THEN Err("extrakeys")
  ELSE IF Pay(v) \notin Formats THEN Err("unknownformat")
  ELSE LET dec == CodecLookup(ctx, "dec:" \o Pay(v), At(obj, "$value")) IN
       IF ~dec.ok THEN dec ELSE P2(dec.v, ctx, 0)

P2Map(obj0, ctx, x) ==
  LET exp == P2RepeatMapChildren(obj0, SortedKeys(obj0), EmptyMap, ctx, 0) IN
  IF ~exp.ok THEN exp
  ELSE LET obj == exp.v IN
       IF Has(obj, "$encode") THEN P2Encode(Del(obj, "$encode"), ctx, At(obj, "$encode"))
       ELSE IF Has(obj, "$decode") THEN P2Decode(Del(obj, "$decode"), ctx, At(obj, "$decode"))
       ELSE IF Has(obj, "$value") THEN
            IF Size(obj) > 1 THEN Err("extrakeys") ELSE P2(At(obj, "$value"), ctx, 0)
       ELSE P2MapKeys(obj, SortedKeys(obj), EmptyMap, ctx, 0)

P2Elems(q, ctx, x) ==
  IF Len(q) = 0 THEN Ok(<<>>)
  ELSE LET v == q[1]
           r == IF IsMap(v) /\ Has(v, "$repeat")
                THEN P2RepeatObjList(Del(v, "$repeat"), At(v, "$repeat"), ctx)
                ELSE LET y == P2(v, ctx, 0) IN
                     IF ~y.ok THEN y ELSE Ok(IF IsNull(y.v) THEN <<>> ELSE <<y.v>>)
       IN IF ~r.ok THEN r
          ELSE LET rest == P2Elems(Tail(q), ctx, x) IN
               IF ~rest.ok THEN rest ELSE Ok(r.v \o rest.v)

P2List(obj, ctx, x) ==
  LET pop == PopListMapValue(Elems(obj), "$encode") IN
  IF ~pop.ok THEN Err(pop.err)
  ELSE IF ~IsNull(pop.val) THEN P2Encode(L(pop.rest), ctx, pop.val)
  ELSE LET r == P2Elems(Elems(obj), ctx, 0) IN
       IF ~r.ok THEN r ELSE Ok(L(r.v))

P2(obj, ctx, x) ==
  IF ctx.fuel = 0 THEN Err("circular")
  ELSE LET c == [ctx EXCEPT !.fuel = @ - 1] IN
       IF IsMap(obj) THEN P2Map(obj, c, 0)
       ELSE IF IsList(obj) THEN P2List(obj, c, 0)
       ELSE IF IsStr(obj) THEN P2String(Pay(obj), c, 0)
       ELSE Ok(obj)

(* $encode transforms *)
ToStringListPermissive(obj) ==
  IF ~IsList(obj) THEN Err("invalidtype")
  ELSE Ok([i \in DOMAIN Elems(obj) |-> Fmt(Elems(obj)[i])])

ToListValue(k, d, v) == IF v = S("") THEN S(k) ELSE S(k \o d \o Fmt(v))
ToListMap(obj, d) ==
  IF ~IsMap(obj) THEN Err("invalidtype")
  ELSE Ok(FoldRes(LAMBDA acc, k :
                    LET v == At(obj, k) IN
                    IF IsList(v) THEN Ok(acc \o [i \in DOMAIN Elems(v) |-> ToListValue(k, d, Elems(v)[i])])
                    ELSE Ok(Append(acc, ToListValue(k, d, v))),
                  <<>>, SortedKeys(obj)).v)
ToListList(q, d) ==
  FoldRes(LAMBDA acc, e : LET r == ToListMap(e, d) IN IF ~r.ok THEN r ELSE Ok(acc \o r.v), <<>>, q)

EncodeString(obj, ctx, v) ==
  LET parts == Split(v, ":")
      cmd   == parts[1]
      n     == Len(parts)
  IN
  CASE cmd = "base64" ->
         IF n # 1 THEN Err("invalidarguments") ELSE CodecLookup(ctx, "base64", S(Fmt(obj)))
    [] cmd = "flags" -> EncodeAny(obj, ctx, L(<<S("tolist:="), S("prefix:--")>>))
    [] cmd = "flatten" ->
         IF n # 1 THEN Err("invalidarguments")
         ELSE IF ~IsList(obj) THEN Err("invalidtype")
         ELSE Ok(L(FoldRes(LAMBDA acc, e : Ok(IF IsList(e) THEN acc \o Elems(e) ELSE Append(acc, e)),
                           <<>>, Elems(obj)).v))
    [] cmd = "join" ->
         IF n > 2 THEN Err("invalidarguments")
         ELSE LET strs == ToStringListPermissive(obj) IN
              IF ~strs.ok THEN strs ELSE Ok(S(JoinStr(strs.v, IF n = 2 THEN parts[2] ELSE "")))
    [] cmd = "prefix" ->
         IF n # 2 THEN Err("invalidarguments")
         ELSE LET strs == ToStringListPermissive(obj) IN
              IF ~strs.ok THEN strs ELSE Ok(L([i \in DOMAIN strs.v |-> S(parts[2] \o strs.v[i])]))
    [] cmd = "sha256" ->
         IF n # 1 THEN Err("invalidarguments") ELSE CodecLookup(ctx, "sha256", S(Fmt(obj)))
    [] cmd = "tolist" ->
         IF n # 2 THEN Err("invalidarguments")
         ELSE LET r == IF IsList(obj) THEN ToListList(Elems(obj), parts[2]) ELSE ToListMap(obj, parts[2]) IN
              IF ~r.ok THEN r ELSE Ok(L(r.v))
    [] cmd = "values" ->
         IF n # 1 THEN Err("invalidarguments")
         ELSE IF ~IsMap(obj) THEN Err("invalidtype")
         ELSE LET ks == SortedKeys(obj) IN Ok(L([i \in DOMAIN ks |-> At(obj, ks[i])]))
    [] OTHER ->
         IF n # 1 THEN Err("invalidarguments")
         ELSE IF cmd \notin Formats THEN Err("unknownformat")
         ELSE CodecLookup(ctx, "enc:" \o cmd, obj)

EncodeAny(obj, ctx, v) ==
  IF IsStr(v) THEN EncodeString(obj, ctx, Pay(v))
  ELSE IF IsList(v) THEN FoldRes(LAMBDA acc, t : EncodeAny(acc, ctx, t), obj, Elems(v))
  ELSE Err("invalidtype")

---------------------------------------------------------------------------
(* output.go *)
RECURSIVE FindOutputs(_), FilterOutput(_)

(* returns Ok([obj, outs]) *)
FindOutputs(t) ==
  IF IsMap(t) THEN
     LET marked == Has(t, "$output") /\ At(t, "$output") = True
         obj    == IF marked THEN Del(t, "$output") ELSE t
         ks     == SortedKeys(obj)
         kids   == FoldRes(LAMBDA acc, k :
                             LET r == FindOutputs(At(obj, k)) IN
                             IF ~r.ok THEN r
                             ELSE Ok([obj |-> Put(acc.obj, k, r.v.obj), outs |-> acc.outs \o r.v.outs]),
                           [obj |-> EmptyMap, outs |-> <<>>], ks)
     IN IF ~kids.ok THEN kids
        ELSE Ok([obj |-> kids.v.obj,
                 outs |-> (IF marked THEN <<kids.v.obj>> ELSE <<>>) \o kids.v.outs])
  ELSE IF IsList(t) THEN
     LET q      == Elems(t)
         marked == HasListMapBool(q, "$output", True)
         pop    == IF marked THEN PopListMapBool(q, "$output", True) ELSE Ok(q)
     IN IF ~pop.ok THEN pop
        ELSE LET kids == FoldRes(LAMBDA acc, e :
                                   LET r == FindOutputs(e) IN
                                   IF ~r.ok THEN r
                                   ELSE Ok([obj |-> Append(acc.obj, r.v.obj), outs |-> acc.outs \o r.v.outs]),
                                 [obj |-> <<>>, outs |-> <<>>], pop.v)
             IN IF ~kids.ok THEN kids
                ELSE Ok([obj |-> L(kids.v.obj),
                         outs |-> kids.v.outs \o (IF marked THEN <<L(kids.v.obj)>> ELSE <<>>)])
  ELSE Ok([obj |-> t, outs |-> <<>>])

(* returns Ok(tree) where Null means "nothing" *)
FilterOutput(t) ==
  IF IsMap(t) THEN
     IF Has(t, "$output") /\ At(t, "$output") = False THEN Ok(Null)
     ELSE FoldRes(LAMBDA acc, k :
                    LET r == FilterOutput(At(t, k)) IN
                    IF ~r.ok THEN r ELSE Ok(IF IsNull(r.v) THEN acc ELSE Put(acc, k, r.v)),
                  EmptyMap, SortedKeys(t))
  ELSE IF IsList(t) THEN
     LET q == Elems(t) IN
     IF HasListMapBool(q, "$output", False) THEN
        LET pop == PopListMapBool(q, "$output", False) IN
        IF ~pop.ok THEN pop ELSE Ok(Null)
     ELSE LET r == FoldRes(LAMBDA acc, e :
                             LET y == FilterOutput(e) IN
                             IF ~y.ok THEN y ELSE Ok(IF IsNull(y.v) THEN acc ELSE Append(acc, y.v)),
                           <<>>, q)
          IN IF ~r.ok THEN r ELSE Ok(L(r.v))
  ELSE Ok(t)

(* finalize.go *)
RECURSIVE Finalize(_)
Finalize(t) ==
  IF IsMap(t) THEN
     M([k2 \in {UnDollar(k) : k \in Keys(t)} |->
          Finalize(At(t, CHOOSE k \in Keys(t) : UnDollar(k) = k2))])
  ELSE IF IsList(t) THEN L([i \in DOMAIN Elems(t) |-> Finalize(Elems(t)[i])])
  ELSE IF IsStr(t) THEN S(UnDollar(Pay(t)))
  ELSE t

---------------------------------------------------------------------------
(* parser.go: outputDocument / OutputDocuments *)

EnvVars(env) == [x \in {"$env:" \o n : n \in DOMAIN env} |->
                   S(env[CHOOSE n \in DOMAIN env : x = "$env:" \o n])]

(* the outputs of one processed copy *)
OutputsOf(data) ==
  LET f == FindOutputs(data) IN
  IF ~f.ok THEN f
  ELSE LET cands == IF Len(f.v.outs) = 0 THEN <<f.v.obj>> ELSE f.v.outs IN
       FoldRes(LAMBDA acc, o :
                 LET y == FilterOutput(o) IN
                 IF ~y.ok THEN y
                 ELSE IF IsNull(y.v) THEN Ok(acc)
                 ELSE IF Validate(y.v) # "" THEN Err(Validate(y.v))
                 ELSE Ok(Append(acc, Finalize(y.v))),
               <<>>, cands)

(* docs: sequence of raw trees; i: index; env: [NAME -> string]; codec table *)
EvalDoc(i, docs, env, codec) ==
  LET ctx == [docs |-> docs, fuel |-> MaxFuel, vars |-> EnvVars(env), codec |-> codec, D |-> Null]
      p1  == Process1(docs[i], ctx)
  IN IF ~p1.ok THEN p1
     ELSE LET reps == RepeatDoc(p1.v, ctx.vars) IN
          IF ~reps.ok THEN reps
          ELSE (* phase 5 on every copy first, then phase 6, as the code does *)
               LET p2s == FoldRes(LAMBDA acc, d :
                                    LET r == P2(d.data, [ctx EXCEPT !.vars = d.vars, !.D = d.data], 0) IN
                                    IF ~r.ok THEN r ELSE Ok(Append(acc, r.v)),
                                  <<>>, reps.v)
               IN IF ~p2s.ok THEN p2s
                  ELSE FoldRes(LAMBDA acc, d :
                                 LET o == OutputsOf(d) IN IF ~o.ok THEN o ELSE Ok(acc \o o.v),
                               <<>>, p2s.v)

(* docs here: sequence of [id, data] (parser state) or of raw trees *)
DataOf(docs) == [i \in DOMAIN docs |-> IF "data" \in DOMAIN docs[i] THEN docs[i].data ELSE docs[i]]

EvalAllC(docs, env, codec) ==
  LET raw == [i \in DOMAIN docs |-> docs[i].data] IN
  FoldRes(LAMBDA acc, i :
            LET r == EvalDoc(i, raw, env, codec) IN IF ~r.ok THEN r ELSE Ok(acc \o r.v),
          <<>>, [i \in DOMAIN raw |-> i])
EvalAll(docs, env) == EvalAllC(docs, env, <<>>)
=============================================================================
