SPECIFICATION Spec
CONSTANTS
  CharOrder <- AsciiOrder
  LowerSet <- AsciiLower
  MaxFuel = 64
  Family = "C03"
  Shard = 0
  NShards = 1
INVARIANT TypeOK
INVARIANT Inv
CHECK_DEADLOCK FALSE
