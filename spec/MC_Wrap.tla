----------------------------- MODULE MC_Wrap -----------------------------
(***************************************************************************)
(* Bounded model of the wrapper (C20): every argument vector up to MaxArgs *)
(* over the argument kinds of the property, on a fixed directory.  TLC     *)
(* evaluates WrapOp, asserts the declarative law (only bkl-resolvable file *)
(* arguments change; a failing one prevents the exec) and prints each      *)
(* vector; the harness runs the real bklb (symlinked as probeb) and        *)
(* kubectl-bkl with a probe program on PATH.                               *)
(***************************************************************************)
EXTENDS BklCli, Json, SequencesExt

CONSTANTS MaxArgs, Shard, NShards

VARIABLES args, phase
vars == <<args, phase>>

AsciiOrder == <<" ","!","\"","#","$","%","&","'","(",")","*","+",",","-",".","/",
  "0","1","2","3","4","5","6","7","8","9",":",";","<","=",">","?","@",
  "A","B","C","D","E","F","G","H","I","J","K","L","M","N","O","P","Q","R","S","T","U","V","W","X","Y","Z",
  "[","\\","]","^","_","`",
  "a","b","c","d","e","f","g","h","i","j","k","l","m","n","o","p","q","r","s","t","u","v","w","x","y","z",
  "{","|","}","~">>
AsciiLower == {"a","b","c","d","e","f","g","h","i","j","k","l","m","n","o","p","q","r","s","t","u","v","w","x","y","z"}

W == "/w"
Doc(k, v) == M(k :> v)
Fs == ("/w/service.yaml" :> [kind |-> "file", docs |-> <<M("name" :> S("svc") @@ "port" :> I("80"))>>])
   @@ ("/w/service.test.toml" :> [kind |-> "file", docs |-> <<M("port" :> I("8080") @@ "debug" :> True)>>])
   @@ ("/w/broken.yaml" :> [kind |-> "file", docs |-> <<M("need" :> S("$required"))>>])
   @@ ("/w/multi.json" :> [kind |-> "file", docs |-> <<Doc("a", I("1")), Doc("b", L(<<S("x"), S("")>>))>>])
   @@ ("/w/sub/service.yaml" :> [kind |-> "file", docs |-> <<M("name" :> S("sub") @@ "zone" :> I("2"))>>])   \* same base name, another directory
   @@ ("/w/over.yaml" :> [kind |-> "file", docs |-> <<M("$parent" :> S("service") @@ "extra" :> I("1"))>>])   \* a plain name whose parent comes from $parent
   (* layers that fail in OTHER ways than a missing value: no parent file for the name, a list over a map *)
   @@ ("/w/orphan.child.yaml" :> [kind |-> "file", docs |-> <<Doc("c", I("1"))>>])
   @@ ("/w/kind.yaml" :> [kind |-> "file", docs |-> <<Doc("m", Doc("a", I("1")))>>])
   @@ ("/w/kind.over.yaml" :> [kind |-> "file", docs |-> <<Doc("m", L(<<I("1")>>))>>])
   @@ ("/w/notes.txt" :> [kind |-> "other"])
   @@ ("/w/conf.ini" :> [kind |-> "other"])

(* flags, --opt=value, words, non-bkl files, layer files, virtual names, unsupported extensions, failing layers *)
ArgKinds == {"-f", "--opt=service.yaml", "get", "notes.txt", "service.yaml", "service.test.toml",
             "service.test.json", "service.yml", "conf.ini", "broken.yaml", "multi.yaml", "missing.yaml",
             "--", "service.test.json-pretty", "./service.yaml", "multi.jsonl", "sub/service.yaml", "over.yaml", "over.json",
             "orphan.child.yaml", "kind.over.json"}
Failing == {"broken.yaml", "orphan.child.yaml", "kind.over.json"}

RECURSIVE Vectors(_)
Vectors(n) == IF n = 0 THEN {<<>>} ELSE {Append(v, a) : v \in Vectors(n - 1), a \in ArgKinds}
AllVectors == UNION {Vectors(n) : n \in 0..MaxArgs}

IsBklFile(a) == a \in {"service.yaml", "service.test.toml", "service.test.json", "service.yml", "broken.yaml",
                       "multi.yaml", "service.test.json-pretty", "./service.yaml", "multi.jsonl", "sub/service.yaml", "over.yaml", "over.json",
                       "orphan.child.yaml", "kind.over.json"}
Law(v) ==
  LET w == WrapOp(Fs, W, v, <<>>) IN
  /\ w.exec = ~\E i \in DOMAIN v : v[i] \in Failing
  /\ \A i \in DOMAIN v : (w.argv[i].kind = "same") = ~IsBklFile(v[i])
  /\ \A i \in DOMAIN v : w.argv[i].kind = "same" => w.argv[i].value = v[i]

Emit(v) ==
  LET w == WrapOp(Fs, W, v, <<>>) IN
  PrintT("@@V " \o ToJson([args |-> v, exec |-> w.exec,
            argv |-> [i \in DOMAIN v |-> IF w.argv[i].kind = "file"
                                         THEN [kind |-> "file", format |-> w.argv[i].format, outs |-> w.argv[i].outs]
                                         ELSE [kind |-> w.argv[i].kind, format |-> "", outs |-> <<>>]]]))

Mine(v) == (Len(ToJson(v)) % NShards) = Shard
Init == args \in {v \in AllVectors : Mine(v)} /\ phase = "new"
Next == /\ phase = "new"
        /\ Assert(Law(args), <<"wrapper law fails in the specification", args>>)
        /\ Emit(args)
        /\ phase' = "done" /\ args' = args
Spec == Init /\ [][Next]_vars
TypeOK == phase \in {"new", "done"}
=============================================================================
