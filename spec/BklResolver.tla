----------------------------- MODULE BklResolver -----------------------------
(***************************************************************************)
(* The layer resolver and merger as a SMALL-STEP machine.                  *)
(*                                                                         *)
(* BklFiles describes one `bkl` run as a function (LoadAll / MergeFiles).  *)
(* This module describes the same run as the sequence of steps the code    *)
(* takes, one action per step the real program reports in its debug log    *)
(* (`bkl -v` / BKL_DEBUG: "[<file id>] loading", "[<file id>] merging",    *)
(* "[<document id>] merging"), so that                                     *)
(*   - TLC can check invariants of the *intermediate* states (the load     *)
(*     stack is a chain, parents are merged before their child, no file is *)
(*     twice on the stack, what has been merged is a prefix of the order), *)
(*   - TLC can check that the small-step machine refines the function      *)
(*     (same final documents and outputs, MC_Resolver), and                *)
(*   - the real program's step log can be validated action by action       *)
(*     (BklTrace: RBegin / RStep / REnd).                                  *)
(*                                                                         *)
(* Silent steps of the code (returning from a finished file, moving from   *)
(* loading to merging, starting the next input) have no log line; they are *)
(* composed into the next reported step (Settle).                          *)
(*                                                                         *)
(* State rs:                                                               *)
(*   fs, root, skip      the file system, the root, -P                     *)
(*   inputs              remaining inputs (absolute real paths)            *)
(*   stack               frames [fid, path, pending, docs, pdocs]          *)
(*   order               finished files in merge order, not yet merged     *)
(*   cur                 the file being merged: [fid, docs] or <<>>        *)
(*   merged              ids of the files merged so far (history)          *)
(*   docs, par           the Parser state                                  *)
(*   status              "run" | "failed" | "done"                         *)
(***************************************************************************)
EXTENDS BklTools

Frame(fid, path, pending, raw) == [fid |-> fid, path |-> path, pending |-> pending, docs |-> raw, pdocs |-> {}]

RInit(fs, root, inputs, skip) ==
  [fs |-> fs, root |-> root, skip |-> skip, inputs |-> inputs, stack |-> <<>>, order |-> <<>>, cur |-> <<>>,
   merged |-> <<>>, loaded |-> <<>>, docs |-> <<>>, par |-> <<>>, status |-> "run"]

Fail(rs) == [rs EXCEPT !.status = "failed"]
Top(rs) == rs.stack[Len(rs.stack)]
ChainPaths(rs) == {rs.stack[i].path : i \in DOMAIN rs.stack}

(* loadFile + parents(): the reported step "[fid] loading" *)
DoLoad(rs, path) ==
  LET child == IF Len(rs.stack) = 0 THEN "" ELSE Top(rs).fid
      fid   == IF child = "" THEN path ELSE child \o "|" \o path
      open  == IF ExtOf(path) \notin Exts THEN Err("unknownformat") ELSE OpenInRoot(rs.fs, rs.root, path)
      rs1   == [rs EXCEPT !.loaded = Append(@, fid)]
  IN IF ~open.ok THEN Fail(rs1)
     ELSE LET raw == rs.fs[open.v].docs
              pp  == IF rs.skip THEN Ok(<<>>) ELSE ParentPaths(rs.fs, path, raw)
          IN IF ~pp.ok THEN Fail(rs1)
             ELSE [rs1 EXCEPT !.stack = Append(@, Frame(fid, path, pp.v, PopParent(raw)))]

(* a finished file: pop it, hand its document ids to the child below *)
DoPop(rs) ==
  LET f    == Top(rs)
      file == [id |-> f.fid, path |-> f.path,
               docs |-> [i \in DOMAIN f.docs |-> [id |-> DocId(f.fid, i), parents |-> SortedSeq(f.pdocs), data |-> f.docs[i]]]]
      rest == SubSeq(rs.stack, 1, Len(rs.stack) - 1)
      ids  == {DocId(f.fid, i) : i \in DOMAIN f.docs}
  IN [rs EXCEPT !.order = Append(@, file),
                !.stack = IF Len(rest) = 0 THEN rest
                          ELSE [rest EXCEPT ![Len(rest)] = [@ EXCEPT !.pdocs = @ \cup ids, !.pending = Tail(@)]]]

(* silent steps, composed: returns the state in which the next step is a reported one (or terminal) *)
RECURSIVE Settle(_)
Settle(rs) ==
  IF rs.status # "run" THEN rs
  ELSE IF Len(rs.stack) > 0 THEN
       IF Len(Top(rs).pending) = 0 THEN Settle(DoPop(rs))
       ELSE IF Top(rs).pending[1] \in ChainPaths(rs) THEN Fail(rs)          \* $parent cycle
       ELSE rs                                                              \* next: load a parent
  ELSE IF Len(rs.cur) > 0 THEN
       IF Len(rs.cur[1].docs) = 0 THEN Settle([rs EXCEPT !.cur = <<>>]) ELSE rs   \* next: merge a document
  ELSE IF Len(rs.order) > 0 THEN rs                                         \* next: start merging a file
  ELSE IF Len(rs.inputs) > 0 THEN
       IF FileMatch(rs.fs, rs.inputs[1]).ok THEN rs                         \* next: load the next input
       ELSE Fail(rs)                                                        \* no such layer: fails without a step
  ELSE [rs EXCEPT !.status = "done"]

(* the label of the next reported step of a settled state *)
NextLabel(rs) ==
  IF Len(rs.stack) > 0 THEN [kind |-> "load", id |-> Top(rs).fid \o "|" \o Top(rs).pending[1]]
  ELSE IF Len(rs.cur) > 0 THEN [kind |-> "mergedoc", id |-> rs.cur[1].docs[1].id]
  ELSE IF Len(rs.order) > 0 THEN [kind |-> "mergefile", id |-> rs.order[1].id]
  ELSE [kind |-> "load", id |-> FileMatch(rs.fs, rs.inputs[1]).v]

(* one reported step from a settled, running state *)
Step(rs) ==
  IF Len(rs.stack) > 0 THEN DoLoad(rs, Top(rs).pending[1])
  ELSE IF Len(rs.cur) > 0 THEN
       LET d == rs.cur[1].docs[1]
           m == MergeDocumentOp(rs.docs, rs.par, d)
       IN IF ~m.ok THEN Fail(rs)
          ELSE [rs EXCEPT !.docs = m.docs, !.par = m.par, !.cur = <<[fid |-> rs.cur[1].fid, docs |-> Tail(rs.cur[1].docs)]>>]
  ELSE IF Len(rs.order) > 0 THEN
       [rs EXCEPT !.cur = <<[fid |-> rs.order[1].id, docs |-> rs.order[1].docs]>>, !.order = Tail(@),
                  !.merged = Append(@, rs.order[1].id)]
  ELSE DoLoad([rs EXCEPT !.inputs = Tail(@)], FileMatch(rs.fs, rs.inputs[1]).v)

---------------------------------------------------------------------------
(* invariants of the intermediate states *)
StackIsChain(rs) ==
  \A i \in DOMAIN rs.stack :
     rs.stack[i].fid = (IF i = 1 THEN rs.stack[i].path ELSE rs.stack[i - 1].fid \o "|" \o rs.stack[i].path)
NoFileTwiceOnStack(rs) ==
  \A i, j \in DOMAIN rs.stack : i # j => rs.stack[i].path # rs.stack[j].path
(* a file's id extends its child's id: the parents of a file are the files whose id extends it by one path *)
IsParentOf(p, c) == Len(p) > Len(c) /\ HasPrefix(p, c \o "|") /\ IndexFrom(DropPrefix(p, c \o "|"), "|", 1) = 0
ParentsBeforeChild(rs) ==      \* in the merge history, every parent precedes its child
  \A i, j \in DOMAIN rs.merged : IsParentOf(rs.merged[i], rs.merged[j]) => i < j
LoadedBeforeMerged(rs) ==      \* nothing is merged that was not loaded, children are loaded before their parents
  /\ \A i \in DOMAIN rs.merged : \E j \in DOMAIN rs.loaded : rs.loaded[j] = rs.merged[i]
  /\ \A i, j \in DOMAIN rs.loaded : IsParentOf(rs.loaded[i], rs.loaded[j]) => j < i
MergePhaseHasNoStack(rs) == (Len(rs.cur) > 0) => Len(rs.stack) = 0
ResolverInv(rs) ==
  /\ StackIsChain(rs) /\ NoFileTwiceOnStack(rs) /\ ParentsBeforeChild(rs) /\ LoadedBeforeMerged(rs) /\ MergePhaseHasNoStack(rs)

(* refinement of the function: the finished machine holds the documents RunLayers computes *)
RefinesRunLayers(rs0, rsEnd) ==
  LET inputsV == rs0.inputs
      big == FoldRes(LAMBDA acc, inp0 :
                       LET fm == FileMatch(rs0.fs, inp0)
                           inp == IF fm.ok THEN fm.v ELSE inp0
                           ld == IF ~fm.ok THEN fm ELSE IF rs0.skip THEN LoadOne(rs0.fs, rs0.root, inp) ELSE LoadAll(rs0.fs, rs0.root, inp, "", 12) IN
                       IF ~ld.ok THEN ld
                       ELSE LET m == MergeFiles(acc.docs, acc.par, ld.v.files) IN
                            IF ~m.ok THEN Err(m.err) ELSE Ok([docs |-> m.docs, par |-> m.par]),
                     [docs |-> <<>>, par |-> <<>>], inputsV)
  IN IF rsEnd.status = "done" THEN big.ok /\ big.v.docs = rsEnd.docs
     ELSE rsEnd.status = "failed" => ~big.ok
=============================================================================
