SPECIFICATION Spec
CONSTANTS
  CharOrder <- AsciiOrder
  LowerSet <- AsciiLower
  MaxFuel = 64
  Family = "C17"
  Bound = 1
  Shard = 0
  NShards = 1
INVARIANT TypeOK
CHECK_DEADLOCK FALSE
