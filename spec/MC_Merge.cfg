SPECIFICATION Spec
CONSTANTS
  CharOrder <- AsciiOrder
  LowerSet <- AsciiLower
  MaxFuel = 64
  MaxLayers = 4
  FullDepth = 1
  Shard = 0
  NShards = 1
INVARIANT Bounded
CHECK_DEADLOCK FALSE
