SPECIFICATION Spec
CONSTANTS
  CharOrder <- AsciiOrder
  LowerSet <- AsciiLower
  MaxFuel = 64
  MaxLayers = 2
  Shard = 0
  NShards = 1
INVARIANT Bounded
CHECK_DEADLOCK FALSE
