----------------------------- MODULE MC_Merge -----------------------------
(***************************************************************************)
(* Bounded model of layer chains (C01).  State: the merged document and    *)
(* the number of layers applied.  Every step layers one patch from         *)
(*   - a fixed alphabet of patches (every override form, valid and not)    *)
(*   - patches derived from the current document (`RelPatches`): for every *)
(*     top-level position: unmentioned / same / other / null / $delete /   *)
(*     map-over / list-over, and for list values: append, $replace,        *)
(*     {$delete: e}, {$match: e, $value}, {$match: e, field}, per entry e  *)
(* TLC checks the declarative statement of the documented rules (BklProps) *)
(* on every explored (document, patch) pair and prints each pair with the  *)
(* specification's verdict as a vector; the harness replays every vector   *)
(* on the real library.                                                    *)
(***************************************************************************)
EXTENDS BklProps, Json, SequencesExt

CONSTANTS MaxLayers, FullDepth, Shard, NShards

VARIABLES doc, depth, base, hist
vars == <<doc, depth, base, hist>>

AsciiOrder == <<" ","!","\"","#","$","%","&","'","(",")","*","+",",","-",".","/",
  "0","1","2","3","4","5","6","7","8","9",":",";","<","=",">","?","@",
  "A","B","C","D","E","F","G","H","I","J","K","L","M","N","O","P","Q","R","S","T","U","V","W","X","Y","Z",
  "[","\\","]","^","_","`",
  "a","b","c","d","e","f","g","h","i","j","k","l","m","n","o","p","q","r","s","t","u","v","w","x","y","z",
  "{","|","}","~">>
AsciiLower == {"a","b","c","d","e","f","g","h","i","j","k","l","m","n","o","p","q","r","s","t","u","v","w","x","y","z"}

Mk2(k1, v1, k2, v2) == M(k1 :> v1 @@ k2 :> v2)
Mk3(k1, v1, k2, v2, k3, v3) == M(k1 :> v1 @@ k2 :> v2 @@ k3 :> v3)

E1 == Mk2("a", I("1"), "b", S("x"))
E2 == Mk2("a", I("2"), "b", S("x"))
E3 == Single("a", I("1"))

Bases == {
  Mk2("a", I("1"), "b", Mk2("x", S("s"), "y", Null)),
  Mk2("a", S("$required"), "l", L(<<I("1"), S("$required"), I("2")>>)),
  Mk2("l", L(<<E1, E2, E3>>), "m", EmptyMap),
  Mk2("l", L(<<E1, I("1"), L(<<I("1")>>), Single("$merge", S("a"))>>), "a", F("1.5")),
  Mk2("l", L(<<Mk2("$merge", S("a"), "a", I("1")), Mk2("$replace", S("a"), "b", S("x")), Mk2("$encode", S("json"), "a", I("1")), E3>>), "a", I("1")),
  L(<<E1, E2, S("x")>>),
  (* integers that differ by one above 2^53 (one and the same double) *)
  Mk2("big", I("9007199254740993"), "l", L(<<I("9007199254740992"), I("9007199254740993"), Single("id", I("9223372036854775806")), Single("id", I("9223372036854775807"))>>)),
  EmptyMap,
  I("1"),
  Null
}

Fixed == {
  Single("a", I("1")), Single("a", I("2")), Single("a", F("1.5")), Single("a", S("1")), Single("a", Null),
  Single("a", S("$delete")), Single("zz", S("$delete")),
  Single("a", EmptyMap), Single("a", EmptyList), Single("b", I("3")), Single("b", Single("x", S("s"))),
  Single("b", Mk2("x", S("t"), "z", I("1"))), Single("b", Mk2("$replace", True, "q", I("1"))),
  Mk2("$replace", True, "q", I("1")), Mk2("$replace", False, "q", I("1")), Mk2("$replace", S("true"), "q", I("1")),
  Single("m", I("5")), Single("m", L(<<I("1")>>)), Single("l", Single("k", I("1"))), Single("l", I("1")),
  Single("l", L(<<>>)), Single("l", L(<<I("9")>>)), Single("l", L(<<S("$replace"), I("9")>>)),
  Single("l", L(<<Single("$replace", True), I("9")>>)),
  Single("l", L(<<Mk2("$replace", True, "k", I("1")), I("9")>>)),
  Single("l", L(<<Single("$delete", Single("a", I("1")))>>)),
  Single("l", L(<<Single("$delete", Mk2("a", I("1"), "$invert", True))>>)),
  Single("l", L(<<Single("$delete", EmptyMap)>>)),
  Single("l", L(<<Single("$delete", I("1"))>>)),
  Single("l", L(<<Single("$delete", L(<<I("1")>>))>>)),
  (* scalars inside a list pattern are compared as VALUES: what merely prints alike ("1", 1.0, true) does not match 1 *)
  Single("l", L(<<Single("$delete", L(<<S("1")>>))>>)), Single("l", L(<<Single("$delete", L(<<F("1")>>))>>)),
  Single("l", L(<<Mk2("$match", L(<<S("1")>>), "$value", I("2"))>>)), Single("l", L(<<Single("$delete", L(<<I("1"), S("1")>>))>>)),
  (* list patterns are not one-to-one: a pattern longer than the entry it matches *)
  Single("l", L(<<Single("$delete", L(<<I("1"), I("1")>>))>>)),
  Single("l", L(<<Mk2("$match", L(<<I("1"), I("1")>>), "$value", I("2"))>>)),
  Single("l", L(<<Single("$delete", L(<<I("1"), I("2")>>))>>)),
  Single("l", L(<<Single("$delete", Single("a", I("7")))>>)),
  Single("l", L(<<Mk2("$delete", Single("a", I("1")), "k", I("1"))>>)),
  Single("l", L(<<Mk2("$match", Single("a", I("1")), "$value", Single("c", I("3")))>>)),
  Single("l", L(<<Mk2("$match", Single("a", I("1")), "$value", Mk2("$replace", True, "c", I("3")))>>)),
  Single("l", L(<<Mk2("$match", Single("a", I("1")), "c", I("3"))>>)),
  Single("l", L(<<Mk2("$match", Single("b", S("x")), "nn", Single("deep", I("1")))>>)),
  Single("l", L(<<Mk2("$match", EmptyMap, "nl", L(<<I("1")>>))>>)),
  (* every entry gets an EMPTY map (one object for all of them, if the copy is skipped): a later layer fills one *)
  Single("l", L(<<Mk2("$match", EmptyMap, "nn", EmptyMap)>>)),
  Single("l", L(<<Mk2("$match", Single("b", S("x")), "$value", Mk2("nn", EmptyMap, "nl", EmptyList))>>)),
  (* a pattern with MORE keys than the entry it selects: a null pattern value matches an absent key *)
  Single("l", L(<<Mk2("$match", Mk2("a", I("1"), "zz", Null), "$value", I("5"))>>)),
  Single("l", L(<<Single("$delete", Mk3("a", I("1"), "zz", Null, "yy", Null))>>)),
  Single("l", L(<<Mk2("$match", Mk2("a", I("1"), "zz", Mk2("q", I("1"), "$invert", True)), "hit", True)>>)),
  Single("l", L(<<Mk2("$match", Single("b", S("x")), "$value", Mk2("nn", Single("deep", I("1")), "nl", EmptyList))>>)),
  Single("l", L(<<Mk2("$match", Single("a", I("1")), "a", I("1"))>>)),
  Single("l", L(<<Mk2("$match", Single("a", I("1")), "b", S("$delete"))>>)),
  Single("l", L(<<Mk2("$match", Single("b", S("x")), "$value", I("5"))>>)),
  Single("l", L(<<Mk3("$match", Single("a", I("1")), "$value", I("5"), "k", I("1"))>>)),
  Single("l", L(<<Mk2("$match", Single("a", I("7")), "$value", I("5"))>>)),
  Single("l", L(<<Mk2("$match", Single("c", Null), "$value", Single("c", I("4")))>>)),
  Single("l", L(<<Mk2("$match", I("1"), "$value", I("2"))>>)),
  Single("l", L(<<Mk2("$match", I("1"), "$value", I("1"))>>)),
  Single("l", L(<<E3, Single("$delete", E3)>>)),
  Single("l", L(<<Single("$value", I("1")), Single("$invert", True), S("$required")>>)),
  L(<<I("9")>>), L(<<S("$replace")>>), L(<<Single("$delete", S("x"))>>), L(<<Single("$match", EmptyMap)>>),
  L(<<Mk2("$match", EmptyMap, "$value", Mk2("$replace", True, "n", I("1")))>>),
  Single("big", I("9007199254740992")), Single("big", I("9007199254740993")),
  Single("l", L(<<Single("$delete", I("9007199254740993"))>>)), Single("l", L(<<Single("$delete", I("9007199254740994"))>>)),
  Single("l", L(<<Mk2("$match", Single("id", I("9223372036854775807")), "hit", True)>>)),
  S("y"), I("1"), Null, EmptyMap
}

Alt(v) == IF v = I("7") THEN I("8") ELSE I("7")

ListPatches(k, q) ==
  {Single(k, L(<<I("9")>>)), Single(k, L(<<S("$replace")>>))} \cup
  UNION {{Single(k, L(<<Single("$delete", q[i])>>)),
          Single(k, L(<<Mk2("$match", q[i], "$value", Alt(q[i]))>>)),
          Single(k, L(<<Mk2("$match", q[i], "nn", I("1"))>>)),
          Single(k, L(<<Mk2("$match", q[i], "nn", Single("more", I("2")))>>)),
          Single(k, L(<<Mk2("$match", q[i], "nl", L(<<I("2")>>))>>))}
         \cup (IF IsList(q[i]) THEN {Single(k, L(<<Single("$delete", L(Elems(q[i]) \o Elems(q[i])))>>))} ELSE {})
         : i \in DOMAIN q}

RelPatches(d) ==
  IF IsMap(d) THEN
     UNION {{Single(k, S("$delete")), Single(k, At(d, k)), Single(k, Alt(At(d, k))), Single(k, Null),
             Single(k, Single("nn", I("1"))), Single(k, L(<<I("9")>>))}
            \cup (IF IsList(At(d, k)) THEN ListPatches(k, Elems(At(d, k))) ELSE {})
            : k \in Keys(d)}
  ELSE IF IsList(d) THEN
     {L(<<Single("$delete", Elems(d)[i])>>) : i \in DOMAIN Elems(d)}
     \cup {L(<<Mk2("$match", Elems(d)[i], "$value", Alt(Elems(d)[i]))>>) : i \in DOMAIN Elems(d)}
  ELSE {d, Alt(d)}

(* the last level only edits what is there: that is what exposes state shared *)
(* between positions by an earlier layer                                       *)
Patches(d) == IF depth <= FullDepth THEN Fixed \cup RelPatches(d) ELSE RelPatches(d)

(* a vector is the whole chain: the harness replays it on ONE live Parser, so *)
(* that state hidden in the real objects (shared subtrees) takes part         *)
Emit(d, p, r) ==
  PrintT("@@V " \o ToJson([base |-> base, hist |-> hist, dst |-> d, src |-> p, ok |-> r.ok,
                           v |-> IF r.ok THEN r.v ELSE Null,
                           err |-> IF r.ok THEN "" ELSE r.err]))

(* a deterministic partition of the bases over TLC processes *)
BaseSeq == SetToSeq(Bases)
MyBases == {BaseSeq[i] : i \in {j \in DOMAIN BaseSeq : j % NShards = Shard}}

Init == doc \in MyBases /\ depth = 1 /\ base = doc /\ hist = <<>>

Next ==
  /\ depth < MaxLayers
  /\ \E p \in Patches(doc) :
    LET r == Merge(doc, p) IN
    /\ Assert(C01Props(doc, p), <<"C01 theorem fails in the specification", doc, p>>)
    /\ Emit(doc, p, r)
    /\ IF r.ok /\ depth < MaxLayers - 1     \* the last level is evaluated and printed, its successors are not stored
       THEN doc' = r.v /\ depth' = depth + 1 /\ hist' = Append(hist, p) /\ UNCHANGED base
       ELSE UNCHANGED vars

Spec == Init /\ [][Next]_vars

(* chains never grow without bound in the bounded model *)
Bounded == depth <= MaxLayers
=============================================================================
