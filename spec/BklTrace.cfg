SPECIFICATION TSpec
CONSTANTS
  CharOrder <- TraceCharOrder
  LowerSet <- TraceLowerSet
  MaxFuel = 100
INVARIANT Progress
CHECK_DEADLOCK FALSE
