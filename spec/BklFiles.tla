----------------------------- MODULE BklFiles -----------------------------
(***************************************************************************)
(* Layer resolution over a file system (file.go, filepath.go) and root     *)
(* confinement (Parser.SetRoot, os.Root).                                  *)
(*                                                                         *)
(* A file system is a function from absolute, clean path strings to        *)
(*   [kind |-> "file", docs |-> Seq(tree)]      a layer file (its parsed,  *)
(*                                              normalised documents)      *)
(*   [kind |-> "symlink", target |-> STRING]    target as written          *)
(*   [kind |-> "other"]                         a file that is not a layer *)
(* Directories are implicit (every proper prefix of a path).  The format   *)
(* of a file is its extension; formats are not an input of any rule.       *)
(*                                                                         *)
(* LoadAll mirrors loadFileAndParents: depth-first, parents before the     *)
(* child, no de-duplication (a diamond loads its base twice, with distinct *)
(* ids because ids embed the child chain).  `reads` collects every path    *)
(* whose content was read, for the confinement property C18.               *)
(***************************************************************************)
EXTENDS BklProps

Exts == {"json", "jsonl", "json-pretty", "toml", "yaml", "yml"}

---------------------------------------------------------------------------
(* paths: strings, "/" separated *)
Parts(p) == Split(p, "/")
IsAbs(p) == HasPrefix(p, "/")

RECURSIVE CleanParts(_, _)
CleanParts(q, acc) ==    \* acc: cleaned components so far (absolute paths only)
  IF Len(q) = 0 THEN acc
  ELSE IF q[1] = "" \/ q[1] = "." THEN CleanParts(Tail(q), acc)
  ELSE IF q[1] = ".." THEN CleanParts(Tail(q), IF Len(acc) = 0 THEN acc ELSE SubSeq(acc, 1, Len(acc) - 1))
  ELSE CleanParts(Tail(q), Append(acc, q[1]))
FromParts(q) == IF Len(q) = 0 THEN "/" ELSE "/" \o JoinStr(q, "/")
Clean(p) == FromParts(CleanParts(Parts(p), <<>>))          \* p absolute
Join(d, p) == Clean(d \o "/" \o p)
Dir(p)  == LET q == CleanParts(Parts(p), <<>>) IN FromParts(IF Len(q) = 0 THEN q ELSE SubSeq(q, 1, Len(q) - 1))
Base(p) == LET q == CleanParts(Parts(p), <<>>) IN IF Len(q) = 0 THEN "/" ELSE q[Len(q)]
Abs(cwd, p) == IF IsAbs(p) THEN Clean(p) ELSE Join(cwd, p)
DotParts(name) == Split(name, ".")
ExtOf(p) == LET q == DotParts(Base(p)) IN IF Len(q) < 2 THEN "" ELSE q[Len(q)]
StripExt(p) == LET e == ExtOf(p) IN IF e = "" THEN p ELSE DropSuffix(p, "." \o e)
Inside(root, p) == p = root \/ root = "/" \/ HasPrefix(p, root \o "/")

(* resolution of symbolic links in every component (filepath.EvalSymlinks) *)
RECURSIVE ResolveFrom(_, _, _, _)
ResolveFrom(fs, done, todo, fuel) ==    \* done: resolved prefix (string), todo: remaining components
  IF fuel = 0 THEN Err("symlinkloop")
  ELSE IF Len(todo) = 0 THEN Ok(done)
  ELSE LET next == IF done = "/" THEN "/" \o todo[1] ELSE done \o "/" \o todo[1] IN
       IF next \in DOMAIN fs /\ fs[next].kind = "symlink" THEN
          LET t  == fs[next].target
              np == IF IsAbs(t) THEN Clean(t) ELSE Join(done, t)
          IN ResolveFrom(fs, "/", CleanParts(Parts(np), <<>>) \o Tail(todo), fuel - 1)
       ELSE ResolveFrom(fs, next, Tail(todo), fuel)
Resolve(fs, p) == ResolveFrom(fs, "/", CleanParts(Parts(p), <<>>), 16)

IsDirIn(fs, p) == \E f \in DOMAIN fs : HasPrefix(f, p \o "/")
ExistsAt(fs, p) ==   \* os.Stat succeeds (follows links)
  LET r == Resolve(fs, p) IN
  r.ok /\ ((r.v \in DOMAIN fs /\ fs[r.v].kind # "symlink") \/ IsDirIn(fs, r.v))

(* standard input as a layer: the name `-.<ext>` (any directory) *)
StdinKey == "<stdin>"
IsStdin(p) == StripExt(Base(p)) = "-"

(* findFile: the file providing a layer name, under any supported extension;
   the property assumes exactly one *)
FindFile(fs, stem) ==
  LET hits == {e \in Exts : ExistsAt(fs, stem \o "." \o e)} IN
  IF hits = {} THEN Err("missingfile")
  ELSE Ok(stem \o "." \o (CHOOSE e \in hits : TRUE))
Ambiguous(fs, stem) == Cardinality({e \in Exts : ExistsAt(fs, stem \o "." \o e)}) > 1

(* globFiles(path): names `path.<ext>` where `*` in path matches within one
   dot-separated segment; sorted *)
(* a segment containing one `*` with literal prefix/suffix *)
StarSeg(ps, ns) ==
  LET i == IndexFrom(ps, "*", 1) IN
  /\ i # 0
  /\ LET pre == SubSeq(ps, 1, i - 1)  suf == SubSeq(ps, i + 1, Len(ps)) IN
     Len(ns) >= Len(pre) + Len(suf) /\ HasPrefix(ns, pre) /\ HasSuffix(ns, suf)

SegMatch(pat, name) ==    \* sequences of dot-separated segments; "*" matches one whole segment
  IF Len(pat) # Len(name) THEN FALSE
  ELSE \A i \in DOMAIN pat : pat[i] = "*" \/ pat[i] = name[i] \/ StarSeg(pat[i], name[i])
GlobFiles(fs, path) ==
  LET dir  == Dir(path)
      rdir == Resolve(fs, dir)
      pat  == DotParts(Base(path))
      cands == IF ~rdir.ok THEN {}
               ELSE {f \in DOMAIN fs : Dir(f) = rdir.v /\ ExtOf(f) \in Exts /\ fs[f].kind # "other"
                                       /\ SegMatch(pat, SubSeq(DotParts(Base(f)), 1, Len(DotParts(Base(f))) - 1))}
  IN SortedSeq({Join(dir, Base(f)) : f \in cands})

---------------------------------------------------------------------------
(* opening a file through the root: fails when the path, or a symbolic     *)
(* link on it, leaves the root.  Returns Ok(resolved path) or an error.    *)
RECURSIVE OpenWalk(_, _, _, _, _)
OpenWalk(fs, root, done, todo, fuel) ==
  IF fuel = 0 THEN Err("symlinkloop")
  ELSE IF ~Inside(root, done) THEN Err("escapes")
  ELSE IF Len(todo) = 0 THEN Ok(done)
  ELSE LET next == IF done = "/" THEN "/" \o todo[1] ELSE done \o "/" \o todo[1] IN
       IF next \in DOMAIN fs /\ fs[next].kind = "symlink" THEN
          LET t == fs[next].target IN
          IF IsAbs(t) THEN Err("escapes")                     \* os.Root refuses absolute links
          ELSE LET np == Join(done, t) IN
               IF ~Inside(root, np) THEN Err("escapes")
               ELSE OpenWalk(fs, root, root,
                             SubSeq(CleanParts(Parts(np), <<>>), Len(CleanParts(Parts(root), <<>>)) + 1,
                                    Len(CleanParts(Parts(np), <<>>))) \o Tail(todo), fuel - 1)
       ELSE OpenWalk(fs, root, next, Tail(todo), fuel)

(* A root is [lex, real]: the path the parser believes it is confined to     *)
(* (Parser.rootPath, lexical) and the directory the os.Root handle really   *)
(* refers to (they differ when a nested root was reached through a          *)
(* directory link inside the previous root).                                *)
RootAt(p) == [lex |-> p, real |-> p]
NoRoot == RootAt("/")
RootOf(x) == x

RelParts(base, abs) ==   \* components of abs below base (base is a lexical prefix of abs)
  LET bp == CleanParts(Parts(base), <<>>)  ap == CleanParts(Parts(abs), <<>>) IN SubSeq(ap, Len(bp) + 1, Len(ap))

WalkIn(fs, real, comps) == OpenWalk(fs, real, real, comps, 16)

OpenInRoot(fs, rootx, abs) ==
  LET root == RootOf(rootx) IN
  IF IsStdin(abs) THEN (IF StdinKey \in DOMAIN fs THEN Ok(StdinKey) ELSE Err("missingfile"))
  ELSE IF ~Inside(root.lex, abs) THEN Err("escapes")
  ELSE LET r == WalkIn(fs, root.real, RelParts(root.lex, abs)) IN
       IF ~r.ok THEN r
       ELSE IF r.v \in DOMAIN fs /\ fs[r.v].kind = "file" THEN r
       ELSE IF r.v \in DOMAIN fs /\ fs[r.v].kind = "other" THEN Err("unmarshal")
       ELSE Err("missingfile")

(* Parser.SetRoot(path): relative to the current root, through it *)
SetRootOp(fs, rootx, abs) ==
  LET root == RootOf(rootx) IN
  IF ~Inside(root.lex, abs) THEN Err("escapes")
  ELSE LET r == WalkIn(fs, root.real, RelParts(root.lex, abs)) IN
       IF ~r.ok THEN r
       ELSE IF r.v = "/" \/ IsDirIn(fs, r.v) THEN Ok([lex |-> abs, real |-> r.v])
       ELSE Err("missingfile")
RECURSIVE SetRoots(_, _, _)
SetRoots(fs, rootx, paths) ==
  IF Len(paths) = 0 THEN Ok(RootOf(rootx))
  ELSE LET r == SetRootOp(fs, rootx, paths[1]) IN IF ~r.ok THEN r ELSE SetRoots(fs, r.v, Tail(paths))

---------------------------------------------------------------------------
(* one loaded file: [id, path, docs : Seq([id, parents (set of ids), data])] *)

DocId(fid, i) == fid \o "|doc" \o NatStr(i - 1)

(* parentsFromDirective: pops $parent from every map document *)
DirectiveOf(docs) ==
  LET vals == [i \in DOMAIN docs |->
                 IF IsMap(docs[i]) /\ Has(docs[i], "$parent") THEN <<TRUE, At(docs[i], "$parent")>> ELSE <<FALSE, Null>>]
      isTrue   == \E i \in DOMAIN vals : vals[i][1] /\ vals[i][2] = True
      badList  == \E i \in DOMAIN vals : vals[i][1] /\ IsList(vals[i][2]) /\
                     \E j \in DOMAIN Elems(vals[i][2]) : ~IsStr(Elems(vals[i][2])[j])
      noParent == \E i \in DOMAIN vals : vals[i][1] /\ (vals[i][2] = False \/ IsNull(vals[i][2]))
      names    == FoldRes(LAMBDA acc, v :
                            IF ~v[1] THEN Ok(acc)
                            ELSE IF IsStr(v[2]) THEN Ok(Append(acc, Pay(v[2])))
                            ELSE IF IsList(v[2]) THEN Ok(acc \o [j \in DOMAIN Elems(v[2]) |-> ToStr(Elems(v[2])[j])])
                            ELSE Ok(acc), <<>>, vals).v
  IN [any |-> \E i \in DOMAIN vals : vals[i][1], isTrue |-> isTrue, badList |-> badList,
      noParent |-> noParent, names |-> names]
PopParent(docs) == [i \in DOMAIN docs |-> IF IsMap(docs[i]) /\ Has(docs[i], "$parent") THEN Del(docs[i], "$parent") ELSE docs[i]]

(* file.parents(): directive, then symlink, then filename *)
ParentsFromFilename(fs, path) ==
  LET q == DotParts(Base(path)) IN
  IF Len(q) < 2 THEN Err("invalidfilename")
  ELSE IF Len(q) = 2 THEN Ok(<<>>)
  ELSE LET f == FindFile(fs, Join(Dir(path), JoinStr(SubSeq(q, 1, Len(q) - 2), "."))) IN
       IF ~f.ok THEN f ELSE Ok(<<f.v>>)

ParentPaths(fs, path, docs) ==
  LET d == DirectiveOf(docs) IN
  IF IsStdin(path) /\ ~d.any THEN Ok(<<>>) ELSE
  IF d.isTrue \/ d.badList THEN Err("invalidparent")
  ELSE IF d.noParent THEN (IF Len(d.names) > 0 THEN Err("conflictingparent") ELSE Ok(<<>>))
  ELSE IF Len(d.names) > 0 THEN
       FoldRes(LAMBDA acc, nm :
                 LET ms == GlobFiles(fs, Join(Dir(path), nm)) IN
                 IF Len(ms) = 0 THEN Err("missingfile") ELSE Ok(acc \o ms),
               <<>>, d.names)
  ELSE LET r == Resolve(fs, path) IN
       IF ~r.ok THEN Err("missingfile")
       ELSE ParentsFromFilename(fs, r.v)        \* the link target's name (or the file's own)

(* loadFileAndParents: returns Ok([files, reads]) *)
RECURSIVE LoadAll(_, _, _, _, _)
LoadAll(fs, root, path, childId, fuel) ==
  IF fuel = 0 THEN Err("circular")
  ELSE
    LET fid  == IF childId = "" THEN path ELSE childId \o "|" \o path
        open == IF ExtOf(path) \notin Exts THEN Err("unknownformat") ELSE OpenInRoot(fs, root, path)
    IN IF ~open.ok THEN open
       ELSE
         LET raw  == fs[open.v].docs
             pp   == ParentPaths(fs, path, raw)
         IN IF ~pp.ok THEN pp
            ELSE
              LET ups == FoldRes(LAMBDA acc, p :
                                   LET r == LoadAll(fs, root, p, fid, fuel - 1) IN
                                   IF ~r.ok THEN r
                                   ELSE Ok([files |-> acc.files \o r.v.files, reads |-> acc.reads \cup r.v.reads,
                                            tops |-> Append(acc.tops, r.v.files[Len(r.v.files)])]),
                                 [files |-> <<>>, reads |-> {}, tops |-> <<>>], pp.v)
              IN IF ~ups.ok THEN ups
                 ELSE
                   LET pdocs == UNION {{f.docs[i].id : i \in DOMAIN f.docs} : f \in SeqToSet(ups.v.tops)}
                       body  == PopParent(raw)
                       me    == [id |-> fid, path |-> path,
                                 docs |-> [i \in DOMAIN body |->
                                             [id |-> DocId(fid, i), parents |-> SortedSeq(pdocs), data |-> body[i]]]]
                   IN Ok([files |-> Append(ups.v.files, me), reads |-> ups.v.reads \cup {open.v}])

(* MergeFile (no inheritance): the file's documents, $parent ignored *)
LoadOne(fs, root, path) ==
  LET open == IF ExtOf(path) \notin Exts THEN Err("unknownformat") ELSE OpenInRoot(fs, root, path) IN
  IF ~open.ok THEN open
  ELSE LET body == PopParent(fs[open.v].docs) IN
       Ok([files |-> << [id |-> path, path |-> path,
                         docs |-> [i \in DOMAIN body |-> [id |-> DocId(path, i), parents |-> <<>>, data |-> body[i]]]] >>,
           reads |-> {open.v}])

(* merging loaded files into a parser state *)
RECURSIVE MergeFiles(_, _, _)
MergeFiles(docs, par, files) ==
  IF Len(files) = 0 THEN [ok |-> TRUE, err |-> "", docs |-> docs, par |-> par]
  ELSE LET r == MergePatches(docs, par, files[1].docs) IN
       IF ~r.ok THEN r ELSE MergeFiles(r.docs, r.par, Tail(files))

(* FileMatch: the real file behind a (possibly virtual) input name *)
FileMatch(fs, path) ==
  IF ExtOf(path) \notin Exts THEN Err("invalidtype")
  ELSE IF IsStdin(path) THEN Ok(path)
  ELSE FindFile(fs, StripExt(path))

(* one `bkl` run: inputs (absolute paths), skipParent, root.                *)
(* Returns [ok, outs, reads, format] -- format is the first input's         *)
(* (virtual) extension, used when neither -f nor -o decide                  *)
RunLayers(fs, root, inputs, skipParent, env) ==
  LET step(acc, inp) ==
        LET fm == FileMatch(fs, inp) IN
        IF ~fm.ok THEN fm
        ELSE LET ld == IF skipParent THEN LoadOne(fs, root, fm.v) ELSE LoadAll(fs, root, fm.v, "", 12) IN
             IF ~ld.ok THEN ld
             ELSE LET m == MergeFiles(acc.docs, acc.par, ld.v.files) IN
                  IF ~m.ok THEN Err(m.err)
                  ELSE Ok([docs |-> m.docs, par |-> m.par, reads |-> acc.reads \cup ld.v.reads])
      st == FoldRes(step, [docs |-> <<>>, par |-> <<>>, reads |-> {}], inputs)
  IN IF ~st.ok THEN st
     ELSE LET r == EvalAll(st.v.docs, env) IN
          IF ~r.ok THEN r ELSE Ok([outs |-> r.v, reads |-> st.v.reads, docs |-> st.v.docs])
=============================================================================
