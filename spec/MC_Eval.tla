----------------------------- MODULE MC_Eval -----------------------------
(***************************************************************************)
(* Bounded models of the evaluator, one universe per property family       *)
(* (C06, C07, C10, C11, C12, C13).  A case is a small stream of documents  *)
(* (plus an environment) built by a set expression from every string /     *)
(* token / marker placement / reference form at every position of every    *)
(* small shape.  For every case TLC evaluates EvalAll, asserts the         *)
(* family's declarative law (stated independently of the evaluator's       *)
(* control flow: identity, escape law, marker freedom, inline law, output  *)
(* law, repeat law, interpolation law) and prints the case with the        *)
(* specification's verdict; the harness evaluates every case with the real *)
(* library and compares.                                                   *)
(***************************************************************************)
EXTENDS BklProps, Json, SequencesExt

CONSTANTS Family, Bound, Shard, NShards

VARIABLES c, phase
vars == <<c, phase>>

AsciiOrder == <<" ","!","\"","#","$","%","&","'","(",")","*","+",",","-",".","/",
  "0","1","2","3","4","5","6","7","8","9",":",";","<","=",">","?","@",
  "A","B","C","D","E","F","G","H","I","J","K","L","M","N","O","P","Q","R","S","T","U","V","W","X","Y","Z",
  "[","\\","]","^","_","`",
  "a","b","c","d","e","f","g","h","i","j","k","l","m","n","o","p","q","r","s","t","u","v","w","x","y","z",
  "{","|","}","~">>
AsciiLower == {"a","b","c","d","e","f","g","h","i","j","k","l","m","n","o","p","q","r","s","t","u","v","w","x","y","z"}

Mk2(k1, v1, k2, v2) == M(k1 :> v1 @@ k2 :> v2)
Mk3(k1, v1, k2, v2, k3, v3) == M(k1 :> v1 @@ k2 :> v2 @@ k3 :> v3)
Mk4(k1, v1, k2, v2, k3, v3, k4, v4) == M(k1 :> v1 @@ k2 :> v2 @@ k3 :> v3 @@ k4 :> v4)
a %% b == M([k \in Keys(a) \cup Keys(b) |-> IF Has(b, k) THEN At(b, k) ELSE At(a, k)])
NoEnv == <<>>
Case(docs, env, tagv) == [docs |-> docs, env |-> env, tag |-> tagv, aux |-> <<>>]
CaseX(docs, env, tagv, aux) == [docs |-> docs, env |-> env, tag |-> tagv, aux |-> aux]
Eval1(d) == EvalAll(<<[id |-> "d1", data |-> d]>>, NoEnv)
EvalS(ds, env) == EvalAll([i \in DOMAIN ds |-> [id |-> "d" \o NatStr(i), data |-> ds[i]]], env)

---------------------------------------------------------------------------
(* strings over a small alphabet, by length *)
Alpha == {"$", "a", "{", "}", ":", ".", "\""}
RECURSIVE StrsOfLen(_)
StrsOfLen(n) == IF n = 0 THEN {""} ELSE {s \o ch : s \in StrsOfLen(n - 1), ch \in Alpha}
StrsUpTo(n) == UNION {StrsOfLen(k) : k \in 0..n}
Tokens == {"$merge:x", "$\"{a}\"", "$required", "$delete", "$match", "$output", "$env:HOME", "$repeat",
           "$value", "$encode", "$replace", "$parent", "$FOO", "${X}", "$(cmd)", "$$", "$1", "$replace:a",
           "$invert", "$decode", "$bogus", "$Upper", "a$b", "$", "$\"", "$\"x", "x$$y", "$$$", "$repeat:x",
           "$merge", "$\"lit\""}
AllStrs == StrsUpTo(Bound) \cup Tokens

(* a string that is neither a directive nor contains a doubled dollar *)
HasDD(s) == \E i \in 1..(Len(s) - 1) : SubSeq(s, i, i + 1) = "$$"
PlainStr(s) == /\ ~DirectiveShaped(s)
               /\ ~(HasPrefix(s, "$\"") /\ HasSuffix(s, "\""))
               /\ ~HasDD(s)

(* the positions a string is placed at: as a value and as a key *)
ShapesOf(s) == {
  S(s), Single("k", S(s)), L(<<S(s)>>), Single("k", Single("j", S(s))), Single("k", L(<<I("1"), S(s)>>)),
  L(<<Single("k", S(s))>>), Mk2("k", S(s), "z", Null),
  Single(s, I("1")), Single("k", Single(s, S("v"))), L(<<Single(s, True)>>), Single(s, S(s)) }

Escape(t) == MapStrings(t, DoubleDollar)

(* directive-blind overlay of a child on a base (what layering does to plain data) *)
RECURSIVE Overlay(_, _)
Overlay(b, d) ==
  IF IsMap(b) /\ IsMap(d) THEN
     M([k \in Keys(b) \cup Keys(d) |->
          IF Has(b, k) /\ Has(d, k) THEN Overlay(At(b, k), At(d, k))
          ELSE IF Has(d, k) THEN At(d, k) ELSE At(b, k)])
  ELSE IF IsList(b) /\ IsList(d) THEN L(Elems(b) \o Elems(d))
  ELSE d

BaseC06 == Mk2("k", S("old"), "q", I("7"))

CasesC06(lazy) ==
  UNION {
    {Case(<<d>>, NoEnv, "plain") : d \in {x \in ShapesOf(s) : PlainStr(s)}}
    \cup {CaseX(<<Escape(d)>>, NoEnv, "escaped", d) : d \in {x \in ShapesOf(s) : ~HasNull(x)}}
    \cup {CaseX(<<BaseC06, Escape(d)>>, NoEnv, "layered", d) : d \in {x \in ShapesOf(s) : IsMap(x) /\ ~HasNull(x)}}
    : s \in AllStrs}

(* the layered case is a two-layer chain: evaluated as Merge(base, child) *)
LawC06(cs) ==
  CASE cs.tag = "plain" ->
         Eval1(cs.docs[1]) = Ok(IF IsNull(DropNulls(cs.docs[1])) THEN <<>> ELSE <<DropNulls(cs.docs[1])>>)
    [] cs.tag = "escaped" -> Eval1(cs.docs[1]) = Ok(<<cs.aux>>)
    [] cs.tag = "layered" ->
         LET m == Merge(cs.docs[1], cs.docs[2]) IN
         /\ m.ok
         /\ Eval1(m.v) = Ok(<<Overlay(cs.docs[1], cs.aux)>>)

---------------------------------------------------------------------------
(* C07: no unresolved marker reaches the output *)
Toks07 == {"$required", "$delete", "$match", "$replace", "$bogus", "$output", "$value", "$invert",
           "$merge", "$encode", "$parent", "$repeat:x", "$Upper", "$1", "plain"}
(* lower layers with a marker at some position *)
Lowers07(t) == {
  Single("a", S(t)), Single("a", Single("b", S(t))), Single("l", L(<<S(t)>>)), Single("l", L(<<I("1"), S(t)>>)),
  Mk2("a", I("1"), "o", Mk2("$output", False, "x", S(t))), Single(t, I("1")), Single("a", Single(t, I("1"))),
  Single("l", L(<<Single(t, I("1"))>>)), Single("e", Mk2("$encode", S("join"), "$value", L(<<S(t)>>))),
  (* the encoded text hides the marker from the final check: only the check of the encoder's input sees it *)
  Single("e", L(<<S("x"), S(t), Single("$encode", S("join:,"))>>)), Single("e", L(<<S("x"), L(<<S(t)>>), Single("$encode", L(<<S("flatten"), S("join:-")>>))>>)),
  Single("e", Mk2("$encode", L(<<S("values"), S("join:+")>>), "k", S(t))),
  Single("v", Single("$value", S(t))), L(<<S(t)>>), Mk2("a", S(t), "$output", True),
  (* a selected subtree below an excluded one is still emitted, so it is still validated *)
  Mk2("a", I("1"), "o", Mk2("$output", False, "in", Mk2("$output", True, "x", S(t)))),
  Mk2("$output", False, "in", Mk2("$output", True, "x", S(t))),
  Mk2("a", I("1"), "o", Mk2("$output", False, "in", Mk2("$output", True, t, I("1")))) }
Uppers07 == {
  EmptyMap, Single("a", I("1")), Single("a", Null), Single("a", Single("b", I("2"))), Single("l", L(<<I("3")>>)),
  Single("l", EmptyList), Single("l", Null), Single("z", I("1")), Single("a", S("$delete")),
  Single("l", L(<<S("$replace")>>)), Single("l", L(<<Single("$delete", I("1"))>>)),
  Single("o", Single("x", I("2"))), Single("e", Null), L(<<I("1")>>) }

(* Bound >= 2: chains of three layers (the middle one may satisfy, hide or re-introduce a marker) *)
Mids07 == { Single("a", S("$required")), Single("l", L(<<S("$required")>>)), Single("o", Single("in", Single("x", I("2")))),
            Single("a", Single("b", S("$required"))), Single("o", Single("$output", True)), Single("v", Null),
            Single("e", Single("$value", L(<<S("ok")>>))) }
CasesC07(lazy) ==
  UNION {{Case(<<lo, up>>, NoEnv, "chain") : lo \in {x \in Lowers07(t) : ~(IsMap(x) /\ Has(x, "$match"))}, up \in Uppers07}
         \cup (IF Bound >= 2
               THEN {Case(<<lo, mid, up>>, NoEnv, "chain") : lo \in {x \in Lowers07(t) : IsMap(x) /\ ~Has(x, "$match")}, mid \in Mids07, up \in Uppers07}
               ELSE {})
         : t \in Toks07}

(* layering of a whole chain *)
LayerAll(ds) == FoldRes(LAMBDA acc, d : Merge(acc, d), ds[1], Tail(ds))
LawC07(cs) ==
  LET m == LayerAll(cs.docs) IN
  m.ok => LET r == Eval1(m.v) IN
          r.ok => \A i \in DOMAIN r.v : NoMarker(r.v[i])

---------------------------------------------------------------------------
(* C10: references behave as if the referenced subtree were written inline *)
Tgt == Mk3("x", I("1"), "y", Single("z", I("2")), "w", L(<<I("5")>>))
DocC10(host) ==
  Mk4("t", Tgt, "l", L(<<I("1"), I("2")>>), "s", S("str"), "h", host)
  %% Mk2("k.dot", Single("q", I("1")), "hid", Mk2("$output", False, "v", I("5")))
  %% Single("t.y", S("a key that is spelled like a path"))

(* [host with a reference, the same host written inline] *)
Pairs10 == {
  << Single("$replace", S("t")),                       Tgt >>,
  << Single("$replace", L(<<S("t")>>)),                Tgt >>,
  << Mk2("$replace", S("t.y"), "gone", I("1")),        Single("z", I("2")) >>,
  << S("$replace:t"),                                  Tgt >>,
  << S("$merge:t.y.z"),                                I("2") >>,
  << S("$merge:s"),                                    S("str") >>,
  << Mk2("$merge", S("t"), "own", I("9")),             Tgt %% Single("own", I("9")) >>,
  << Mk2("$merge", L(<<S("t"), S("y")>>), "own", I("9")), Mk2("z", I("2"), "own", I("9")) >>,
  << Mk2("$merge", S("t"), "x", I("7")),               Tgt >>,
  << Mk2("$merge", S("t"), "y", Single("own", I("3"))), Mk3("x", I("1"), "y", Mk2("own", I("3"), "z", I("2")), "w", L(<<I("5")>>)) >>,
  << Mk2("$merge", S("t"), "w", L(<<I("4")>>)),        Mk3("x", I("1"), "y", Single("z", I("2")), "w", L(<<I("4"), I("5")>>)) >>,
  << Single("$merge", S("t")),                         Tgt >>,
  << Single("$merge", S("s")),                         S("str") >>,
  << L(<<I("9"), Single("$merge", S("l")), I("8")>>),   L(<<I("9"), I("8"), I("1"), I("2")>>) >>,
  << L(<<I("9"), Single("$replace", S("l"))>>),         L(<<I("1"), I("2")>>) >>,
  << L(<<Single("$merge", S("l")), Single("$merge", S("t.w"))>>), L(<<I("1"), I("2"), I("5")>>) >>,
  << Single("$replace", L(<<S("k.dot")>>)),            Single("q", I("1")) >>,
  << Single("$replace", L(<<S("k.dot"), S("q")>>)),    I("1") >>,
  << S("$replace:hid"),                                Mk2("$output", False, "v", I("5")) >>,
  << Mk2("$merge", S("hid"), "own", I("1")),           Mk3("$output", False, "v", I("5"), "own", I("1")) >>,
  << Single("n", Single("$replace", S("t.y"))),        Single("n", Single("z", I("2"))) >>,
  << L(<<Single("n", S("$merge:t.x"))>>),              L(<<Single("n", I("1"))>>) >>
}
(* chains h.b -> h.a -> target.  One shape is left out: a map-form $merge of *)
(* a non-map onto an empty local map leaves {} behind in the document, so  *)
(* a later sibling that references the host sees {} (known finding,        *)
(* KNOWN_FINDINGS.txt id=c10-host-nonmap; the harness probes it directly)  *)
ChainPairs10 == {p \in Pairs10 : ~(IsMap(p[1]) /\ Has(p[1], "$merge") /\ ~IsMap(p[2]))}

(* references that must fail *)
Bad10 == { S("$merge:nope"), Single("$replace", S("t.nope")), Single("$merge", S("k.dot")), S("$replace:l.x"),
           Single("$merge", L(<<S("t"), I("1")>>)), Single("$replace", True), Single("$merge", I("1")),
           Mk2("$merge", S("s"), "own", I("1")), L(<<Single("$merge", S("t"))>>),
           L(<<Single("$replace", S("l")), Single("$replace", S("l"))>>),
           Single("$replace", Single("$path", S("t"))),
           (* several list merges: EVERY one must resolve, not only the last *)
           L(<<Single("b", I("2")), Single("$merge", S("t.nope")), Single("$merge", S("l"))>>),
           L(<<Single("$merge", S("nope")), Single("$merge", S("l")), Single("$merge", S("t.w"))>>),
           L(<<Single("$merge", S("l")), Single("$merge", S("t.nope")), Single("$merge", S("t.w"))>>) }
(* cross-document forms: the second document is addressed by pattern *)
Other == Mk2("id", I("2"), "t", Tgt)
Third == Mk2("id", I("3"), "t", I("0"))
Cross10 == {
  << Single("$replace", Mk2("$match", Single("id", I("2")), "$path", S("t"))), Tgt >>,
  << Single("$replace", Mk2("$match", Single("id", I("2")), "$path", L(<<S("t"), S("y")>>))), Single("z", I("2")) >>,
  << Single("$replace", L(<<Single("id", I("2")), S("t"), S("x")>>)), I("1") >>,
  << Mk2("$merge", L(<<Single("id", I("2")), S("t")>>), "own", I("9")), Tgt %% Single("own", I("9")) >>,
  << Single("$replace", Single("$match", Single("id", I("2")))), Other >>
}
(* the referenced document is itself a root-level $merge / $replace host with other keys *)
HostDoc == Mk3("id", I("2"), "parts", Single("v", I("2")), "$merge", Mk2("$match", Single("id", I("3")), "$path", S("tmpl")))
TmplDoc == Mk2("id", I("3"), "tmpl", Single("w", I("9")))
CrossHost10 == {
  << Mk2("z", I("3"), "$merge", Mk2("$match", Single("id", I("2")), "$path", S("parts"))), Mk2("z", I("3"), "v", I("2")) >>,
  << Single("$replace", L(<<Single("id", I("2")), S("parts")>>)), Single("v", I("2")) >>,
  << S("$merge:[{id: 2}, parts, v]"), I("2") >>
}
(* a whole-document reference to a template that holds a nested map-form $merge: every consumer *)
(* evaluates its own copy, in its own context; the template itself is left as it was            *)
Tmpl10 == Mk3("kind", S("template"), "spec", Mk2("$merge", S("over"), "image", S("app")), "over", Single("replicas", I("1")))
Consumer10(n, r) == Mk3("name", S(n), "over", Single("replicas", I(r)), "app", Single("$replace", Single("$match", Single("kind", S("template")))))
CrossBad10 == { Single("$replace", Mk2("$match", Single("id", I("7")), "$path", S("t"))),
                L(<<Single("$merge", L(<<Single("id", I("7")), S("t"), S("w")>>)), Single("$merge", L(<<Single("id", I("2")), S("t"), S("w")>>))>>),
                Single("$replace", L(<<Mk2("$invert", True, "id", I("1")), S("t")>>)),
                Single("$replace", L(<<EmptyMap, S("t")>>)) }

(* three-level chains host -> mid -> base by map-form $merge; the host's     *)
(* local value at a key may be a scalar, null, map or list where the        *)
(* referenced subtrees hold containers; evaluating the host must not        *)
(* disturb mid or base, whatever the key order                              *)
Chain10(hk, mk, bk, local, midv, basev) ==
  M(hk :> Mk2("$merge", S(mk), "opts", local) @@ mk :> Mk2("$merge", S(bk), "opts", midv) @@ bk :> Single("opts", basev))
ChainVals == {I("5"), Null, Single("flags", L(<<S("h")>>)), L(<<S("lh")>>), Single("other", I("1")), EmptyMap, EmptyList}
ChainConts == {Single("flags", L(<<S("m")>>)), L(<<S("lm")>>), Mk2("flags", L(<<S("m")>>), "deep", Single("k", I("1")))}
ChainNames == { <<"host", "mid", "base">>, <<"zhost", "mid", "base">>, <<"host", "mid", "zbase">>, <<"b", "c", "a">> }
CasesChain10(lazy) ==
  {CaseX(<<Chain10(n[1], n[2], n[3], lv, mv, bv)>>, NoEnv, "mergechain", n)
     : n \in ChainNames, lv \in ChainVals, mv \in ChainConts, bv \in ChainConts}

(* Bound >= 2: the host under another key (evaluated AFTER every target: "zz"; before: "a0") and one map deeper *)
DocC10k(host, key) == Del(DocC10(host), "h") %% Single(key, host)
Places10 == {"zz", "a0", "in.deep"}
Place(host, pl) == IF pl = "in.deep" THEN DocC10k(Single("deep", host), "in") ELSE DocC10k(host, pl)
CasesPlace10(lazy) ==
  IF Bound < 2 THEN {}
  ELSE {CaseX(<<Place(p[1], pl)>>, NoEnv, "placed", <<Place(p[2], pl)>>) : p \in Pairs10, pl \in Places10}
       \cup {Case(<<Place(b, pl)>>, NoEnv, "bad") : b \in Bad10, pl \in Places10}

RECURSIVE Deep10(_, _)
Deep10(n, leaf) == IF n = 0 THEN leaf ELSE Single("k" \o NatStr(13 - n), Deep10(n - 1, leaf))     \* k2: {k3: ... {k12: leaf}}
DeepPath == JoinStr([i \in 1..12 |-> "k" \o NatStr(i)], ".")
Quoted10 == M("id" :> I("1") @@ "foo" :> Single("bar", S("baz")) @@ "404" :> Single("page", S("missing")) @@ "true" :> L(<<S("yes")>>) @@ "null" :> I("0")
               @@ "0" :> S("zero") @@ "" :> S("empty") @@ "a.b" :> S("dotted"))      \* key names that collide with path syntax
CasesC10(lazy) ==
  CasesChain10(0) \cup CasesPlace10(0) \cup
  {Case(<<DocC10(p[1])>>, NoEnv, "ref") : p \in Pairs10}
  \cup {Case(<<DocC10(p[2])>>, NoEnv, "inline") : p \in Pairs10}
  \cup {Case(<<DocC10(Mk2("a", p[1], "b", S("$replace:h.a")))>>, NoEnv, "chain") : p \in ChainPairs10}
  \cup {Case(<<DocC10(b)>>, NoEnv, "bad") : b \in Bad10}
  \cup {Case(<<Mk2("id", I("1"), "h", p[1]), Other, Third>>, NoEnv, "cross") : p \in Cross10}
  \cup {Case(<<Mk2("id", I("1"), "h", b), Other, Third>>, NoEnv, "crossbad") : b \in CrossBad10}
  \cup {CaseX(<<Mk2("id", I("1"), "h", p[1]), HostDoc, TmplDoc>>, NoEnv, "crosshost", p[2]) : p \in CrossHost10}
  \cup {CaseX(ds, NoEnv, "crossnested", <<>>) : ds \in { <<Tmpl10, Consumer10("b", "3"), Consumer10("c", "5")>>,
                                                         <<Consumer10("b", "3"), Tmpl10, Consumer10("c", "5")>>,
                                                         <<Consumer10("b", "3"), Consumer10("c", "5"), Tmpl10>> }}
  (* string paths written as QUOTED scalars: the only spelling that reaches keys YAML reads as numbers, booleans or null *)
  \cup {CaseX(<<Quoted10 %% Single("use", q[1])>>, NoEnv, "quoted", q[2])
          : q \in { <<S("$merge:\"foo.bar\""), S("baz")>>, <<S("$replace:'foo.bar'"), S("baz")>>,
                    <<Single("$merge", S("\"404\"")), Single("page", S("missing"))>>,
                    <<Mk2("$merge", S("'404'"), "ttl", I("5")), Mk2("page", S("missing"), "ttl", I("5"))>>,
                    <<L(<<Single("$replace", S("'true'"))>>), L(<<S("yes")>>)>>,
                    <<S("$merge:\"null\""), I("0")>>, <<S("$replace:\"404.page\""), S("missing")>>,
                    <<S("$merge:'nope'"), Null>>, <<S("$merge:404"), Null>>, <<S("$replace:true"), Null>>, <<Single("$merge", S("null")), Null>>,
                    <<S("$merge:\"404\".page"), Null>>,
                    (* list paths take every entry as ONE key, whatever it looks like *)
                    <<Single("$replace", L(<<S("0")>>)), S("zero")>>, <<Single("$replace", L(<<S("")>>)), S("empty")>>,
                    <<Single("$replace", L(<<S("a.b")>>)), S("dotted")>>, <<Single("$replace", L(<<S("404"), S("page")>>)), S("missing")>>,
                    <<S("$replace:\"0\""), S("zero")>>, <<S("$replace:0"), Null>>, <<S("$replace:a.b"), Null>>,
                    <<Single("$replace", L(<<I("0")>>)), Null>>, <<Single("$replace", L(<<S("foo"), S("bar"), S("deeper")>>)), Null>> }}
  \cup {CaseX(<<Quoted10, Mk2("id", I("2"), "use", Single("$replace", Mk2("$match", Single("id", I("1")), "$path", S(q[1]))))>>, NoEnv, "quotedcross", q[2])
          : q \in { <<"\"404\"", Single("page", S("missing"))>>, <<"'foo.bar'", S("baz")>>, <<"404", Null>> }}
  (* a path of twelve segments, as a string and as a list; the same target referenced three times in one document *)
  \cup {CaseX(<<Mk2("k1", Deep10(11, Single("leaf", I("7"))), "use", q)>>, NoEnv, "deep", Single("leaf", I("7")))
          : q \in { S("$replace:" \o DeepPath), Single("$merge", S(DeepPath)), Single("$replace", L([i \in 1..12 |-> S("k" \o NatStr(i))])) }}
  \cup {CaseX(<<Mk2("k1", Deep10(11, Single("leaf", I("7"))), "use", S("$replace:" \o DeepPath \o ".nope"))>>, NoEnv, "deep", Null)}
  \cup {CaseX(<<Mk4("a", Single("p", I("1")), "x", Single("$merge", S("a")), "y", Mk2("$merge", S("a"), "q", I("2")), "z", S("$merge:a"))>>, NoEnv, "thrice",
               Mk4("a", Single("p", I("1")), "x", Single("p", I("1")), "y", Mk2("p", I("1"), "q", I("2")), "z", Single("p", I("1"))))}
  (* two documents match; one of them is a $merge host: still ambiguous *)
  \cup {Case(<<Mk2("id", I("1"), "h", Single("$replace", L(<<Single("parts", Single("v", I("2"))), S("parts")>>))),
               HostDoc, TmplDoc, Mk2("id", I("4"), "parts", Single("v", I("2")))>>, NoEnv, "crossbad") : dummy \in {1}}

HostOf(r) == At(r.v[1], "h")
LawC10(cs) ==
  CASE cs.tag = "quoted" ->
         LET r == Eval1(cs.docs[1]) IN
         IF IsNull(cs.aux) THEN ~r.ok ELSE r.ok /\ At(r.v[1], "use") = cs.aux /\ At(r.v[1], "404") = Single("page", S("missing"))
    [] cs.tag = "deep" ->
         LET r == Eval1(cs.docs[1]) IN IF IsNull(cs.aux) THEN ~r.ok ELSE r.ok /\ At(r.v[1], "use") = cs.aux
    [] cs.tag = "thrice" -> Eval1(cs.docs[1]) = Ok(<<cs.aux>>)
    [] cs.tag = "quotedcross" ->
         LET r == EvalS(cs.docs, NoEnv) IN
         IF IsNull(cs.aux) THEN ~r.ok ELSE r.ok /\ At(r.v[2], "use") = cs.aux
    [] cs.tag = "ref" ->
         \E p \in Pairs10 : cs.docs[1] = DocC10(p[1]) /\
            LET a == Eval1(DocC10(p[1]))  b == Eval1(DocC10(p[2])) IN
            /\ a.ok /\ b.ok /\ a.v = b.v
            /\ At(a.v[1], "t") = Tgt /\ At(a.v[1], "l") = L(<<I("1"), I("2")>>)   \* targets unchanged
    [] cs.tag = "placed" ->
         LET a == Eval1(cs.docs[1])  b == Eval1(cs.aux[1]) IN a.ok /\ b.ok /\ a.v = b.v
    [] cs.tag = "chain" ->
         \E p \in ChainPairs10 : cs.docs[1] = DocC10(Mk2("a", p[1], "b", S("$replace:h.a"))) /\
            LET a == Eval1(cs.docs[1]) IN
            /\ a.ok
            /\ Has(HostOf(a), "a") = Has(HostOf(a), "b")
            /\ Has(HostOf(a), "a") => At(HostOf(a), "a") = At(HostOf(a), "b")
    [] cs.tag = "mergechain" ->
         (* the document without the host evaluates mid and base to the same values *)
         LET full == Eval1(cs.docs[1])
             rest == Eval1(Del(cs.docs[1], cs.aux[1]))
         IN full.ok => (rest.ok /\ \A k \in {cs.aux[2], cs.aux[3]} : At(full.v[1], k) = At(rest.v[1], k))
    [] cs.tag = "crosshost" ->
         LET a == EvalS(cs.docs, NoEnv) IN
         cs.docs[1] = cs.docs[1] /\ (a.ok \/ a.err = "undef") /\ (a.ok => At(a.v[1], "h") = cs.aux)
    [] cs.tag = "crossnested" ->
         LET a == EvalS(cs.docs, NoEnv)
             Rep(x) == At(At(At(x, "app"), "spec"), "replicas")
         IN /\ a.ok /\ Len(a.v) = 3
            /\ \A x \in Range(a.v) : (Has(x, "name") /\ At(x, "name") = S("b")) => Rep(x) = I("3")
            /\ \A x \in Range(a.v) : (Has(x, "name") /\ At(x, "name") = S("c")) => Rep(x) = I("5")
            /\ \A x \in Range(a.v) : Has(x, "kind") => At(At(x, "spec"), "replicas") = I("1")
    [] cs.tag \in {"bad", "crossbad"} -> ~EvalS(cs.docs, NoEnv).ok
    [] cs.tag = "cross" ->
         \E p \in Cross10 : cs.docs[1] = Mk2("id", I("1"), "h", p[1]) /\
            LET a == EvalS(cs.docs, NoEnv) IN
            a.ok /\ a.v = <<Mk2("id", I("1"), "h", p[2]), Other, Third>>
    [] OTHER -> TRUE

---------------------------------------------------------------------------
(* C11: $output selects exactly the marked subtrees and hides the excluded *)
(* Marks: "t" true, "f" false, "n" none, placed on every container of a    *)
(* shape with 4 containers: root map R, child map A, grandchild map B,     *)
(* list C (marker entry).                                                  *)
MarkSet == {"t", "f", "n"}
WithMark(m, mk) == IF mk = "t" THEN m %% Single("$output", True)
                   ELSE IF mk = "f" THEN m %% Single("$output", False) ELSE m
ListMark(q, mk) == IF mk = "t" THEN L(q \o <<Single("$output", True)>>)
                   ELSE IF mk = "f" THEN L(<<Single("$output", False)>> \o q) ELSE L(q)
Shape11(r, a, b, cl) ==
  WithMark(Mk3("v", I("1"),
               "A", WithMark(Mk2("w", I("2"), "B", WithMark(Single("x", I("3")), b)), a),
               "C", ListMark(<<I("4"), Single("y", I("5"))>>, cl)), r)
(* Bound >= 2: six containers - also a map below a key of a list entry (D) and a list nested in the list (E) *)
Shape11b(r, a, b, cl, dm, el) ==
  WithMark(Mk3("v", I("1"),
               "A", WithMark(Mk2("w", I("2"), "B", WithMark(Single("x", I("3")), b)), a),
               "C", ListMark(<<I("4"), Single("y", WithMark(Single("q", I("5")), dm)), ListMark(<<I("6")>>, el)>>, cl)), r)
CasesC11b(lazy) ==
  IF Bound < 2 THEN   \* a slice of the six-container shapes: selections that sit only below a list entry
       {Case(<<Shape11b(r, "n", "n", cl, dm, el)>>, NoEnv, "marks") : r \in {"f", "n"}, cl \in {"n", "f"}, dm \in MarkSet, el \in MarkSet}
  ELSE {Case(<<Shape11b(r, a, b, cl, dm, el)>>, NoEnv, "marks") : r \in MarkSet, a \in MarkSet, b \in MarkSet, cl \in MarkSet, dm \in MarkSet, el \in MarkSet}
(* more than a dozen selected subtrees below one map, several per key: the order is the sorted walk *)
Wide11 == M([k \in {"alpha", "bravo", "charlie", "delta", "echo", "foxtrot"} |->
             M([j \in {"s1", "s2", "s3", "s4", "s5", "s6"} |-> Mk2("$output", True, "id", S(k \o "-" \o j))])])
(* markers that exist only AFTER evaluation: a subtree copied in from another document brings its *)
(* marker along, and a root-level $replace takes the hiding root away. $output is decided on the  *)
(* evaluated document (phase 6), so each stream means what its hand-evaluated twin means.         *)
Src11 == Mk3("name", S("base"), "svc", Mk2("$output", True, "port", I("80")), "plain", Single("x", I("1")))
Ref11(path) == Mk2("$match", Single("name", S("base")), "$path", S(path))
Pairs11 ==
  { << <<Src11, WithMark(Mk2("name", S("hid"), "copy", Mk2("$merge", Ref11("svc"), "extra", I("1"))), r)>>,
       <<Src11, WithMark(Mk2("name", S("hid"), "copy", Mk3("$output", True, "port", I("80"), "extra", I("1"))), r)>> >> : r \in MarkSet }
  \cup { << <<Src11, WithMark(Mk2("name", S("hid"), "copy", Single("$replace", Ref11("svc"))), r)>>,
            <<Src11, WithMark(Mk2("name", S("hid"), "copy", Mk2("$output", True, "port", I("80"))), r)>> >> : r \in MarkSet }
  \cup { << <<Src11, Mk2("$output", False, "$replace", Ref11("plain"))>>, <<Src11, Single("x", I("1"))>> >>,
           << <<Src11, Mk2("$output", False, "$replace", Ref11("svc"))>>, <<Src11, Mk2("$output", True, "port", I("80"))>> >>,
           << <<Mk2("$output", False, "$replace", Ref11("plain")), Src11>>, <<Single("x", I("1")), Src11>> >> }
CasesC11dyn == {Case(p[1], NoEnv, "dynamic") : p \in Pairs11}
(* the fixed order of outputs is the byte order of the keys: h10 comes before h2 *)
KeyOrder11 == M([k \in {"h10", "h2", "h9", "H3", "h", "h02"} |-> Mk2("$output", True, "id", S(k))])
(* a list's marker entry is an entry like any other for the layer above: it can be deleted, or matched and flipped *)
MarkedList(mk) == Mk2("name", S("svc"), "l", ListMark(<<I("1"), I("2")>>, mk))
CasesC11layer ==
  {CaseX(<<MarkedList(t[1]), Single("l", L(<<t[2]>>))>>, NoEnv, "markerlayer", t[3])
     : t \in { <<"f", Single("$delete", Single("$output", False)), <<Mk2("name", S("svc"), "l", L(<<I("1"), I("2")>>))>> >>,
                <<"t", Single("$delete", Single("$output", True)), <<Mk2("name", S("svc"), "l", L(<<I("1"), I("2")>>))>> >>,
                <<"f", Mk2("$match", Single("$output", False), "$output", True), <<L(<<I("1"), I("2")>>)>> >>,
                <<"t", Mk2("$match", Single("$output", True), "$output", False), <<Single("name", S("svc"))>> >>,
                <<"f", I("3"), <<Single("name", S("svc"))>> >>, <<"t", I("3"), <<L(<<I("1"), I("2"), I("3")>>)>> >> }}
  (* the same marker twice in one list (each layer brings its own): both are markers, neither is an entry *)
  \cup {CaseX(<<MarkedList("t"), Single("l", L(<<Single("$output", True), I("3")>>))>>, NoEnv, "markerlayer", <<L(<<I("1"), I("2"), I("3")>>)>>),
        CaseX(<<Single("l", L(<<Single("$output", True), I("1"), Single("$output", True)>>)), Single("z", I("1"))>>, NoEnv, "markerlayer", <<L(<<I("1")>>)>>),
        CaseX(<<MarkedList("f"), Single("l", L(<<Single("$output", False), I("3")>>))>>, NoEnv, "markerlayer", <<Single("name", S("svc"))>>)}

CasesC11(lazy) ==
  CasesC11b(0) \cup {Case(<<Wide11>>, NoEnv, "wide")} \cup CasesC11dyn \cup CasesC11layer \cup {Case(<<KeyOrder11>>, NoEnv, "keyorder")} \cup
  {Case(<<Shape11(r, a, b, cl)>>, NoEnv, "marks") : r \in MarkSet, a \in MarkSet, b \in MarkSet, cl \in MarkSet}
  \cup {Case(<<Shape11(r, a, "n", "n"), Shape11("n", "n", b, cl)>>, NoEnv, "stream") : r \in MarkSet, a \in MarkSet, b \in MarkSet, cl \in MarkSet}
  \cup {Case(<<L(<<Single("$output", True), Single("w", Mk2("$output", True, "p", I("1"))), L(<<Single("$output", mk), I("2")>>)>>)>>, NoEnv, "lists") : mk \in {True, False}}
  \cup {Case(<<L(<<Mk2("$output", mk, "extra", I("1")), I("2")>>)>>, NoEnv, "extrakeys") : mk \in {True, False}}

LawC11(cs) ==
  CASE cs.tag = "dynamic" ->
         \E p \in Pairs11 : cs.docs = p[1] /\
            LET a == EvalS(p[1], NoEnv)  b == EvalS(p[2], NoEnv) IN a.ok /\ b.ok /\ a.v = b.v /\ Len(a.v) >= 2
    [] cs.tag = "keyorder" ->
         EvalS(cs.docs, NoEnv) = Ok([i \in 1..6 |-> Single("id", S(<<"H3", "h", "h02", "h10", "h2", "h9">>[i]))])
    [] cs.tag = "markerlayer" ->
         LET m == Merge(cs.docs[1], cs.docs[2]) IN m.ok /\ Eval1(m.v) = Ok(cs.aux)
    [] cs.tag \in {"marks", "stream", "lists"} ->
         LET r == EvalS(cs.docs, NoEnv)
             e == FoldRes(LAMBDA acc, d : Ok(acc \o Expected11(d)), <<>>, cs.docs).v
         IN /\ r.ok /\ SameBag(r.v, e)
            /\ \A i \in DOMAIN r.v : AllStrings(r.v[i], LAMBDA x : x # "$output")
    [] cs.tag = "wide" ->
         LET r == EvalS(cs.docs, NoEnv) IN
         r.ok /\ Len(r.v) = 36 /\ \A i \in 1..35 : StrLess(Pay(At(r.v[i], "id")), Pay(At(r.v[i + 1], "id")))
    [] cs.tag = "extrakeys" -> ~EvalS(cs.docs, NoEnv).ok
    [] OTHER -> TRUE

---------------------------------------------------------------------------
(* C12: $repeat *)
Counts == 0..Bound
Body12 == Mk3("i", S("$repeat"), "s", S("$\"n{$repeat}\""), "fixed", I("7"))
Subst12(i) == Mk3("i", I(NatStr(i)), "s", S("n" \o NatStr(i)), "fixed", I("7"))
BodyXY == Mk2("x", S("$\"{$repeat:x}\""), "xy", S("$\"{$repeat:x}-{$repeat:y}\""))
SubstXY(i, j) == Mk2("x", S(NatStr(i)), "xy", S(NatStr(i) \o "-" \o NatStr(j)))
(* a nested repeat must not disturb the index of the enclosing one: the key  *)
(* "zafter" is evaluated after the nested list                              *)
Nest12(n, m) == Mk4("$repeat", I(NatStr(n)), "before", S("$repeat"),
                    "items", L(<<Mk2("$repeat", I(NatStr(m)), "j", S("$repeat"))>>),
                    "zafter", S("$\"d{$repeat}\""))
NestWant(i, m) == Mk3("before", I(NatStr(i)), "items", L([j \in 1..m |-> Single("j", I(NatStr(j - 1)))]),
                      "zafter", S("d" \o NatStr(i)))
CasesC12(lazy) ==
  {Case(<<Body12 %% Single("$repeat", I(NatStr(n)))>>, NoEnv, "doc") : n \in Counts}
  \cup {Case(<<BodyXY %% Single("$repeat", Mk2("x", I(NatStr(n)), "y", I(NatStr(m))))>>, NoEnv, "named") : n \in Counts, m \in 0..2}
  \cup {Case(<<Single("l", L(<<S("a"), Body12 %% Single("$repeat", I(NatStr(n))), S("z")>>))>>, NoEnv, "list") : n \in Counts}
  \cup {Case(<<Single("m", Mk2("$\"k{$repeat}\"", Body12 %% Single("$repeat", I(NatStr(n))), "other", I("1")))>>, NoEnv, "map") : n \in Counts}
  \cup {Case(<<L(<<Single("$repeat", I(NatStr(n))), S("$repeat"), S("$\"e{$repeat}\"")>>)>>, NoEnv, "rootlist") : n \in Counts}
  \cup {Case(<<L(<<S("$repeat")>> \o (IF pos = 2 THEN <<Single("$repeat", I(NatStr(n)))>> ELSE <<>>) \o <<S("$\"e{$repeat}\"")>>
                   \o (IF pos = 3 THEN <<Single("$repeat", I(NatStr(n)))>> ELSE <<>>))>>, NoEnv, "rootlistpos") : n \in Counts, pos \in {2, 3}}
  \cup {Case(<<L(<<S("$repeat"), S("$\"e{$repeat}\"")>>), L(<<Single("$repeat", I(NatStr(n)))>>)>>, NoEnv, "rootlistlayer") : n \in Counts}
  \cup {Case(<<L(<<I("7"), Single("$repeat", I(NatStr(n)))>>)>>, NoEnv, "rootlistplain") : n \in Counts}
  (* the count of a LIST document is its marker entry: the layer above addresses it by a pattern naming the directive *)
  \cup {CaseX(<<L(<<Single("$repeat", I("2")), S("$repeat"), S("$\"e{$repeat}\"")>>), L(<<Mk2("$match", Single("$repeat", I("2")), "$repeat", I(NatStr(n)))>>)>>, NoEnv, "rootlistoverride", n) : n \in Counts \ {2}}
  \cup {CaseX(<<L(<<Single("$repeat", I("2")), S("x")>>), L(<<Single("$delete", Single("$repeat", I("2")))>>)>>, NoEnv, "rootlistoverride", 1) : dummy \in {1}}
  \cup {Case(<<Body12 %% Single("$repeat", I("1")), Single("$repeat", I(NatStr(n)))>>, NoEnv, "override") : n \in Counts}
  \cup {Case(<<Nest12(n, m)>>, NoEnv, "nested") : n \in 0..2, m \in 0..2}
  \cup {Case(<<Single("l", L(<<Mk3("$repeat", I(NatStr(n)), "in", L(<<Mk2("$repeat", I("2"), "j", S("$repeat"))>>), "out", S("$repeat"))>>))>>, NoEnv, "nestedlist") : n \in 0..2}
  (* negative counts are zero iterations in every form *)
  \cup {Case(<<Body12 %% Single("$repeat", I(nc))>>, NoEnv, "negcount") : nc \in {"-1", "-3"}}
  \cup {Case(<<BodyXY %% Single("$repeat", Mk2("x", I(c1), "y", I(c2)))>>, NoEnv, "negcount")
           : c1 \in {"-1", "0", "2"}, c2 \in {"-2", "0", "1"}}
  \cup {CaseX(<<Single("l", L(<<S("a"), Body12 %% Single("$repeat", I(nc)), S("z")>>))>>, NoEnv, "neglist", Single("l", L(<<S("a"), S("z")>>))) : nc \in {"-1", "-2"}}
  \cup {Case(<<L(<<Single("$repeat", I("-1")), S("$repeat")>>)>>, NoEnv, "negcount") : dummy \in {1}}
  (* a computed key of an inline repeat uses the index of ITS OWN loop, also inside another loop *)
  \cup {CaseX(<<Mk2("$repeat", I(NatStr(n)), "m", Single("$\"k{$repeat}\"", Mk2("$repeat", I("3"), "v", S("$repeat"))))>>, NoEnv, "nestedkey", n) : n \in 1..2}
  \cup {CaseX(<<Single("l", L(<<Mk2("$repeat", I("2"), "m", Single("$\"k{$repeat}\"", Mk2("$repeat", I("3"), "v", S("$repeat"))))>>))>>, NoEnv, "nestedkeylist", 2) : dummy \in {1}}
  (* a placeholder naming a key whose own value is the bare repeat variable *)
  \cup {CaseX(<<Mk3("$repeat", I(NatStr(n)), k, S("$repeat"), "name", S("$\"srv-{" \o k \o "}\""))>>, NoEnv, "indirect", k) : n \in Counts, k \in {"shard", "aa"}}
  \cup {Case(<<Body12 %% Single("$repeat", v)>>, NoEnv, "badcount") : v \in {S("2"), F("1.5"), True, L(<<I("1")>>), Mk2("x", I("1"), "y", S("2")),
                                           (* a bad count is an error also when an earlier name already makes the product empty *)
                                           Mk2("x", I("0"), "y", S("2")), Mk2("x", I("0"), "y", F("1.5")), Mk2("x", I("-1"), "y", True), Mk2("x", S("2"), "y", I("0"))}}
  \cup {Case(<<Single("l", L(<<Body12 %% Single("$repeat", v)>>))>>, NoEnv, "badnested") : v \in {S("2"), F("1.5"), Single("x", I("1"))}}

Range0(n) == [i \in 1..n |-> i - 1]
LawC12(cs) ==
  LET d == cs.docs[1]
      n == IF IsMap(d) /\ Has(d, "$repeat") /\ IsInt(At(d, "$repeat")) THEN CountOf(At(d, "$repeat")) ELSE 0
  IN
  CASE cs.tag = "doc" -> Eval1(d) = Ok([i \in 1..n |-> Subst12(i - 1)])
    [] cs.tag = "named" ->
         LET nx == CountOf(At(At(d, "$repeat"), "x"))  ny == CountOf(At(At(d, "$repeat"), "y")) IN
         Eval1(d) = Ok([q \in 1..(nx * ny) |-> SubstXY((q - 1) \div ny, (q - 1) % ny)])
    [] cs.tag = "list" ->
         LET k == CountOf(At(Elems(At(d, "l"))[2], "$repeat")) IN
         Eval1(d) = Ok(<<Single("l", L(<<S("a")>> \o [i \in 1..k |-> Subst12(i - 1)] \o <<S("z")>>))>>)
    [] cs.tag = "map" ->
         LET k == CountOf(At(At(At(d, "m"), "$\"k{$repeat}\""), "$repeat") ) IN
         Eval1(d) = Ok(<<Single("m", M([x \in {"k" \o NatStr(i - 1) : i \in 1..k} \cup {"other"} |->
                                          IF x = "other" THEN I("1")
                                          ELSE Subst12(CHOOSE i \in 0..(k - 1) : x = "k" \o NatStr(i))]))>>)
    [] cs.tag = "rootlist" ->
         LET k == CountOf(At(Elems(d)[1], "$repeat")) IN
         Eval1(d) = Ok([i \in 1..k |-> L(<<I(NatStr(i - 1)), S("e" \o NatStr(i - 1))>>)])
    [] cs.tag = "rootlistpos" ->
         LET e == CHOOSE x \in Range(Elems(d)) : IsMap(x)
             k == CountOf(At(e, "$repeat")) IN
         Eval1(d) = Ok([i \in 1..k |-> L(<<I(NatStr(i - 1)), S("e" \o NatStr(i - 1))>>)])
    [] cs.tag = "rootlistlayer" ->
         LET m == Merge(cs.docs[1], cs.docs[2])
             k == CountOf(At(Elems(cs.docs[2])[1], "$repeat")) IN
         m.ok /\ Eval1(m.v) = Ok([i \in 1..k |-> L(<<I(NatStr(i - 1)), S("e" \o NatStr(i - 1))>>)])
    [] cs.tag = "rootlistoverride" ->
         LET m == Merge(cs.docs[1], cs.docs[2]) IN
         m.ok /\ Len(Eval1(m.v).v) = cs.aux
    [] cs.tag = "rootlistplain" ->
         LET k == CountOf(At(Elems(d)[2], "$repeat")) IN
         Eval1(d) = Ok([i \in 1..k |-> L(<<I("7")>>)])
    [] cs.tag = "override" ->
         LET m == Merge(cs.docs[1], cs.docs[2]) IN
         IF ~m.ok THEN CountOf(At(cs.docs[2], "$repeat")) = 1      \* only the same count is rejected
         ELSE Eval1(m.v) = Ok([i \in 1..CountOf(At(cs.docs[2], "$repeat")) |-> Subst12(i - 1)])
    [] cs.tag = "nested" ->
         LET m == CountOf(At(Elems(At(d, "items"))[1], "$repeat")) IN
         Eval1(d) = Ok([i \in 1..n |-> NestWant(i - 1, m)])
    [] cs.tag = "nestedlist" ->
         LET k == CountOf(At(Elems(At(d, "l"))[1], "$repeat")) IN
         Eval1(d) = Ok(<<Single("l", L([i \in 1..k |->
                           Mk2("in", L(<<Single("j", I("0")), Single("j", I("1"))>>), "out", I(NatStr(i - 1)))]))>>)
    [] cs.tag = "nestedkey" ->
         LET inner == M([k \in {"k0", "k1", "k2"} |-> Single("v", I(SubSeq(k, 2, 2)))]) IN
         Eval1(d) = Ok([i \in 1..cs.aux |-> Single("m", inner)])
    [] cs.tag = "nestedkeylist" ->
         LET inner == M([k \in {"k0", "k1", "k2"} |-> Single("v", I(SubSeq(k, 2, 2)))]) IN
         Eval1(d) = Ok(<<Single("l", L(<<Single("m", inner), Single("m", inner)>>))>>)
    [] cs.tag = "negcount" -> (\E k \in {"x", "y"} : IsMap(d) /\ IsMap(At(d, "$repeat")) /\ ~HasPrefix(Pay(At(At(d, "$repeat"), "x")), "-")
                                                      /\ ~HasPrefix(Pay(At(At(d, "$repeat"), "y")), "-")
                                                      /\ CountOf(At(At(d, "$repeat"), "x")) * CountOf(At(At(d, "$repeat"), "y")) > 0)
                              \/ Eval1(d) = Ok(<<>>)
    [] cs.tag = "neglist" -> Eval1(d) = Ok(<<cs.aux>>)
    [] cs.tag = "indirect" -> Eval1(d) = Ok([i \in 1..n |-> Mk2(cs.aux, I(NatStr(i - 1)), "name", S("srv-" \o NatStr(i - 1)))])
    [] cs.tag \in {"badcount", "badnested"} -> ~Eval1(d).ok
    [] OTHER -> TRUE

---------------------------------------------------------------------------
(* C13: interpolation and $env *)
Lits == {"", "a", "}", ":", " ", "x}y", "p:q ", "\""}
Refs13 == {"n", "s", "m.f", "$env:V", "$env:E", "$env:UNSET", "nope", "m.nope"}
Doc13(tmpl) == Mk4("n", I("42"), "s", S("str"), "m", Single("f", F("1.5")), "t", S(tmpl))
Env13 == [V |-> "val", E |-> "", N |-> "007", Q |-> "a=b=c", R |-> "=lead"]
Value13(r) == CASE r = "n" -> "42" [] r = "s" -> "str" [] r = "m.f" -> "1.5"
                [] r = "$env:V" -> "val" [] r = "$env:E" -> "" [] OTHER -> "?"
Known13(r) == r \in {"n", "s", "m.f", "$env:V", "$env:E"}
Tmpl1(l1, r, l2) == "$\"" \o l1 \o "{" \o r \o "}" \o l2 \o "\""
Tmpl2(l1, r1, l2, r2, l3) == "$\"" \o l1 \o "{" \o r1 \o "}" \o l2 \o "{" \o r2 \o "}" \o l3 \o "\""
CasesC13(lazy) ==
  {CaseX(<<Doc13("$\"" \o l1 \o "\"")>>, Env13, "lit", l1) : l1 \in Lits}
  (* the two-character string $" : its opening and closing quote are the same character; the empty template *)
  \cup {CaseX(<<Doc13("$\"")>>, Env13, "lit", "")}
  (* what a placeholder substitutes is final: text that looks like a later placeholder is not replaced again *)
  \cup {CaseX(<<Mk3("a", S("{b}"), "b", S("x"), "t", S(tm[1]))>>, Env13, "rescan", tm[2])
          : tm \in { <<"$\"{a}-{b}\"", "{b}-x">>, <<"$\"{b}-{a}\"", "x-{b}">>, <<"$\"{a}{a}{b}\"", "{b}{b}x">> }}
  (* a reference to a document key whose name starts with "$" (written escaped) is a path like any other *)
  \cup {CaseX(<<Mk3("$$tag", S("v1"), "n", I("5"), "t", S("$\"app-{$$tag}-{n}\""))>>, Env13, "dollarkey", Mk3("$tag", S("v1"), "n", I("5"), "t", S("app-v1-5")))}
  \cup {CaseX(<<Doc13(Tmpl1(l1, r, l2))>>, Env13, "one", <<l1, r, l2>>) : l1 \in Lits, r \in Refs13, l2 \in Lits}
  \cup {CaseX(<<Doc13(Tmpl2(l1, r1, ":", r2, l1))>>, Env13, "two", <<l1, r1, r2>>) : l1 \in {"", "a}"}, r1 \in Refs13, r2 \in Refs13}
  \cup (IF Bound >= 2
        THEN {CaseX(<<Doc13(Tmpl2(l1, r1, l2, r2, l3))>>, Env13, "two3", <<l1, r1, l2, r2, l3>>)
                : l1 \in {"", "\"", "a}"}, r1 \in Refs13, l2 \in Lits, r2 \in Refs13, l3 \in {"", "\"", ":"}}
        ELSE {})
  (* a placeholder runs from the first "{" to the next "}": a literal "{" next to it belongs to the name *)
  \cup {CaseX(<<Doc13(b[1]) %% (IF b[3] THEN Mk2("{n", I("9"), "n{", I("8")) ELSE EmptyMap)>>, Env13, "brace", <<b[2], b[3]>>)
          : b \in { <<"$\"{n{}\"", "8", TRUE>>, <<"$\"<{n{}>\"", "<8>", TRUE>>, <<"$\"{n{}\"", "", FALSE>>,
                    (* a name starting with "{" is read as a flow-style path and is not a key: always an error *)
                    <<"$\"{{n}\"", "", TRUE>>, <<"$\"{{n}}\"", "", TRUE>>, <<"$\"a{{n}b\"", "", TRUE>>,
                    <<"$\"{{n}\"", "", FALSE>>, <<"$\"{{n}}\"", "", FALSE>>, <<"$\"{{$env:V}\"", "", FALSE>>,
                    <<"$\"{n}}\"", "42}", FALSE>>, <<"$\"}{n}{\"", "}42{", FALSE>> }}
  \cup {Case(<<Mk2("t", S("$env:" \o v), "$env:V", I("1"))>>, Env13, "env") : v \in {"V", "E", "N", "UNSET", "Q", "R"}}
  \cup {Case(<<Mk3("a", S("$\"{b}\""), "b", S("$\"<{n}>\""), "n", I("5"))>>, Env13, "nested") : x \in {1}}
  (* a placeholder naming a key whose own value is an environment reference: the fetched string is evaluated like any other value *)
  \cup {CaseX(<<Mk3(k, S("$env:" \o v), "u", S("$\"<{" \o k \o "}>\""), "n", I("5"))>>, Env13, "indirect", <<k, v>>)
          : k \in {"h", "zh"}, v \in {"V", "E", "N", "Q", "UNSET"}}

LawC13(cs) ==
  LET r == EvalS(cs.docs, cs.env) IN
  CASE cs.tag = "lit" -> r.ok /\ At(r.v[1], "t") = S(cs.aux)
    [] cs.tag = "one" ->
         LET l1 == cs.aux[1]  rf == cs.aux[2]  l2 == cs.aux[3] IN
         IF Known13(rf) THEN r.ok /\ At(r.v[1], "t") = S(l1 \o Value13(rf) \o l2) ELSE ~r.ok
    [] cs.tag = "two" ->
         LET l1 == cs.aux[1]  r1 == cs.aux[2]  r2 == cs.aux[3] IN
         IF Known13(r1) /\ Known13(r2)
         THEN r.ok /\ At(r.v[1], "t") = S(l1 \o Value13(r1) \o ":" \o Value13(r2) \o l1)
         ELSE ~r.ok
    [] cs.tag = "two3" ->
         LET l1 == cs.aux[1]  r1 == cs.aux[2]  l2 == cs.aux[3]  r2 == cs.aux[4]  l3 == cs.aux[5] IN
         IF Known13(r1) /\ Known13(r2)
         THEN r.ok /\ At(r.v[1], "t") = S(l1 \o Value13(r1) \o l2 \o Value13(r2) \o l3)
         ELSE ~r.ok
    [] cs.tag = "brace" ->
         IF cs.aux[1] = "" THEN ~r.ok ELSE r.ok /\ At(r.v[1], "t") = S(cs.aux[1])
    [] cs.tag = "env" ->
         IF At(cs.docs[1], "t") = S("$env:UNSET") THEN ~r.ok
         ELSE r.ok /\ IsStr(At(r.v[1], "t")) /\ Has(r.v[1], "val") /\ ~Has(r.v[1], "$env:V")
    [] cs.tag = "nested" -> r = Ok(<<Mk3("a", S("<5>"), "b", S("<5>"), "n", I("5"))>>)
    [] cs.tag = "dollarkey" -> r = Ok(<<cs.aux>>)
    [] cs.tag = "rescan" -> r.ok /\ At(r.v[1], "t") = S(cs.aux)
    [] cs.tag = "indirect" ->
         LET k == cs.aux[1]  v == cs.aux[2] IN
         IF v = "UNSET" THEN ~r.ok
         ELSE r = Ok(<<Mk3(k, S(Env13[v]), "u", S("<" \o Env13[v] \o ">"), "n", I("5"))>>)
    [] OTHER -> TRUE

---------------------------------------------------------------------------
(* C14: $encode transforms, stacks, argument validation.  The byte-level     *)
(* codecs (base64, sha256, json/yaml/toml text) are environment functions:   *)
(* cases that need one are printed with err = "need" and skipped by the      *)
(* replayer; the trace direction supplies them from independent              *)
(* implementations.                                                          *)
Vals14 == { S("abc"), S(""), I("42"), F("1.5"), True, EmptyList, EmptyMap,
            L(<<S("a"), S("b")>>), L(<<S("a"), I("1"), F("2.5"), False>>), L(<<L(<<S("x"), S("y")>>), S("z"), L(<<>>)>>),
            Mk2("b", S("2"), "a", S("1")), Mk3("k", S("v"), "e", S(""), "n", I("3")),
            Mk2("multi", L(<<S("p"), S("q")>>), "one", S("r")), L(<<Single("a", S("1")), Mk2("b", S(""), "c", L(<<I("1"), I("2")>>))>>),
            L(<<Single("a", S("1")), S("notamap")>>), Single("nested", Single("deep", I("1"))),
            (* list-valued entries are expanded ONE level: a list inside such a list is printed as a value *)
            Mk2("inc", L(<<L(<<S("a"), S("b")>>), S("c")>>), "k", L(<<L(<<I("1"), I("2")>>), EmptyList, S("")>>)),
            (* doubles that need all 17 digits, the double range, and an integer beyond 2^53 *)
            L(<<S("pi"), F("3.141592653589793"), F("1e+300"), F("1.67772175e+07"), I("9007199254740993")>>) }
(* "prefix:%s=": the argument is text, never a format *)
Structural == {"join", "join:,", "join: - ", "prefix:--", "prefix:", "prefix:%s=", "flatten", "tolist:=", "tolist::", "values", "flags"}
Malformed == {"join:a:b", "prefix", "prefix:a:b", "flatten:x", "tolist", "tolist:a:b", "values:x", "base64:x", "sha256:1", "json:x", "bogus", ""}
Codecs14 == {"base64", "sha256", "json", "yaml", "toml"}
Trans14 == Structural \cup Malformed \cup Codecs14
Stacks14 == {<<t>> : t \in Trans14} \cup {<<a, b>> : a \in Structural \cup {"base64"}, b \in Structural \cup {"bogus", "sha256"}}
            \cup (IF Bound >= 3 THEN {<<a, b, cc>> : a \in Structural, b \in Structural, cc \in Structural \cup {"json"}} ELSE {})
EncArg(st) == IF Len(st) = 1 THEN S(st[1]) ELSE L([i \in DOMAIN st |-> S(st[i])])
CasesC14(lazy) ==
  {CaseX(<<Single("out", Mk2("$encode", EncArg(st), "$value", v))>>, NoEnv, "value", <<v, st>>) : v \in Vals14, st \in Stacks14}
  \cup {CaseX(<<Single("out", v %% Single("$encode", EncArg(st)))>>, NoEnv, "maphost", <<v, st>>) : v \in {x \in Vals14 : IsMap(x)}, st \in Stacks14}
  \cup {CaseX(<<Single("out", L(<<Single("$encode", EncArg(st))>> \o Elems(v)))>>, NoEnv, "listhost", <<v, st>>) : v \in {x \in Vals14 : IsList(x)}, st \in Stacks14}
  \cup {CaseX(<<Single("out", Mk2("$encode", a, "$value", S("x")))>>, NoEnv, "badarg", <<a>>) : a \in {I("1"), True, EmptyMap, L(<<I("1")>>), L(<<S("join"), EmptyMap>>)}}
  \cup {CaseX(<<Single("out", L(<<Single("$encode", S("join")), Single("$encode", S("values")), S("x")>>))>>, NoEnv, "twomarkers", <<>>) : dummy \in {1}}
  (* a list-form $encode inside the body of an inline $repeat: every copy is encoded, not only the first *)
  \cup {CaseX(<<Single("out", L(<<Mk3("$repeat", I("3"), "args", L(<<S("a"), S("b"), Single("$encode", EncArg(st))>>), "i", S("$repeat"))>>))>>, NoEnv, "repeatenc", st)
          : st \in {<<"join:,">>, <<"prefix:-", "join">>, <<"flatten">>}}
  \cup {CaseX(<<Single("out", Single("$\"k{$repeat}\"", Mk2("$repeat", I("2"), "args", L(<<Single("$encode", S("join:+")), S("x"), S("y")>>))))>>, NoEnv, "repeatencmap", <<>>) : dummy \in {1}}
  (* $value, $decode and $encode side by side: $encode is taken first, its operand is the REST of the map, *)
  (* which decodes; the result is the encoding of the decoded tree                                         *)
  \cup {CaseX(<<Single("out", Mk3("$value", S(t[1]), "$decode", S("json"), "$encode", EncArg(t[2])))>>, NoEnv, "decenc", t)
          : t \in { <<"[1, \"b\"]", <<"join:,">>>>, <<"{\"k\": \"v\", \"e\": \"\"}", <<"flags">>>>, <<"{\"k\": [1, 2]}", <<"values", "flatten", "join">>>>,
                    <<"[1, 2]", <<"json">>>>, <<"[1, 2]", <<"bogus">>>> }}
  (* $decode: the shapes that are errors before any decoder is asked *)
  \cup {CaseX(<<Single("out", d)>>, NoEnv, "baddecode", <<>>)
          : d \in { Mk2("$decode", S("json"), "$value", I("5")), Mk2("$decode", S("json"), "$value", L(<<S("1")>>)),
                    Mk2("$decode", S("json"), "$value", Null), Single("$decode", S("json")),
                    Mk3("$decode", S("json"), "$value", S("1"), "extra", I("2")), Mk2("$decode", S("xml"), "$value", S("1")),
                    Mk2("$decode", I("1"), "$value", S("1")), Mk2("$decode", L(<<S("json")>>), "$value", S("1")),
                    Mk2("$decode", S(""), "$value", S("1")), Mk2("$decode", S("json"), "value", S("1")) }}

Ctx14 == [docs |-> <<>>, fuel |-> MaxFuel, vars |-> <<>>, codec |-> <<>>, D |-> Null]
RECURSIVE FoldEnc(_, _)
FoldEnc(v, st) == IF Len(st) = 0 THEN Ok(v)
                  ELSE LET r == EncodeAny(v, Ctx14, S(st[1])) IN IF ~r.ok THEN r ELSE FoldEnc(r.v, Tail(st))
LawC14(cs) ==
  CASE cs.tag \in {"value", "maphost", "listhost"} ->
         LET v == cs.aux[1]  st == cs.aux[2]
             r == EncodeAny(v, Ctx14, EncArg(st))
         IN /\ r = FoldEnc(v, st)                                                   \* a list of transforms applies left to right
            /\ (\E i \in DOMAIN st : st[i] \in Malformed) => ~(r.ok)                \* malformed arguments are errors
            /\ (st = <<"flags">>) => r = FoldEnc(v, <<"tolist:=", "prefix:--">>)     \* flags = tolist:= then prefix:--
            /\ (st = <<"values">> /\ IsMap(v)) => r = Ok(L([i \in DOMAIN SortedKeys(v) |-> At(v, SortedKeys(v)[i])]))
            /\ (st = <<"join:,">> /\ IsList(v)) => r = Ok(S(JoinStr([i \in DOMAIN Elems(v) |-> Fmt(Elems(v)[i])], ",")))
            /\ (st = <<"prefix:--">> /\ IsList(v)) => r = Ok(L([i \in DOMAIN Elems(v) |-> S("--" \o Fmt(Elems(v)[i]))]))
            /\ (st = <<"flatten">> /\ IsList(v) /\ \A i \in DOMAIN Elems(v) : ~IsList(Elems(v)[i])) => r = Ok(v)
    [] cs.tag = "repeatenc" ->
         LET r == EvalS(cs.docs, NoEnv)
             want == FoldEnc(L(<<S("a"), S("b")>>), cs.aux) IN
         want.ok /\ r = Ok(<<Single("out", L([i \in 1..3 |-> Mk2("args", want.v, "i", I(NatStr(i - 1)))]))>>)
    [] cs.tag = "repeatencmap" ->
         EvalS(cs.docs, NoEnv) = Ok(<<Single("out", Mk2("k0", Single("args", S("x+y")), "k1", Single("args", S("x+y"))))>>)
    [] cs.tag \in {"badarg", "twomarkers", "baddecode"} -> ~EvalS(cs.docs, NoEnv).ok
    [] OTHER -> TRUE

---------------------------------------------------------------------------
(* C08: reference graphs on three named subtrees; every node has at most    *)
(* one outgoing reference, in every form                                    *)
Nodes08 == {"x", "y", "z"}
Forms08 == {<<"plain", "">>} \cup {<<f, t>> : f \in {"mapmerge", "mapreplace", "strmerge", "listmerge", "listreplace", "interp", "interp2", "interp3"}, t \in Nodes08}
            \cup {<<"selfwhole", "">>}
Node08(f) ==
  CASE f[1] = "plain" -> Single("v", I("1"))
    [] f[1] = "mapmerge" -> Mk2("$merge", S(f[2]), "own", I("1"))
    [] f[1] = "mapreplace" -> Single("$replace", S(f[2]))
    [] f[1] = "strmerge" -> S("$merge:" \o f[2])
    [] f[1] = "listmerge" -> L(<<Single("$merge", S(f[2])), I("9")>>)
    [] f[1] = "listreplace" -> L(<<I("8"), Single("$replace", S(f[2]))>>)
    [] f[1] = "interp" -> S("$\"<{" \o f[2] \o "}>\"")
    [] f[1] = "interp2" -> S("$\"<{" \o f[2] \o "}|{k}>\"")      \* a second placeholder that always resolves
    [] f[1] = "interp3" -> S("$\"<{k}|{" \o f[2] \o "}{" \o f[2] \o "}>\"")
    [] f[1] = "selfwhole" -> Mk2("$merge", EmptyList, "own", I("1"))
(* the universe is partitioned over TLC processes on the first node's form, so *)
(* that no process has to build all 26^3 documents                            *)
Forms08Seq == SetToSeq(Forms08)
MyForms08 == {Forms08Seq[i] : i \in {j \in DOMAIN Forms08Seq : j % NShards = Shard}}
(* two whole-document self-merges feed each other: a cycle with fan-out, the   *)
(* known finding c08-branching-cycle, probed separately by the harness         *)
IsSelf(f) == IF f[1] = "selfwhole" THEN 1 ELSE 0
CasesC08(lazy) ==
  UNION {{CaseX(<<Mk4("x", Node08(fx), "y", Node08(fy), "z", Node08(fz), "k", I("7"))>>, NoEnv, "refgraph", <<fx, fy, fz>>)
            : fz \in {f \in Forms08 : IsSelf(fx) + IsSelf(fy) + IsSelf(f) < 2}}
         : fx \in MyForms08, fy \in Forms08}
EdgeOf(aux, n) == LET f == IF n = "x" THEN aux[1] ELSE IF n = "y" THEN aux[2] ELSE aux[3] IN
                  IF f[1] \in {"plain", "selfwhole"} THEN "" ELSE f[2]
FormOf(aux, n) == (IF n = "x" THEN aux[1] ELSE IF n = "y" THEN aux[2] ELSE aux[3])[1]
RECURSIVE Reach08(_, _, _)
Reach08(aux, n, k) == IF k = 0 \/ n = "" THEN {} ELSE {EdgeOf(aux, n)} \cup Reach08(aux, EdgeOf(aux, n), k - 1)
OnCycle(aux, n) == n \in Reach08(aux, n, 3)
(* a cycle made only of forms that keep the reference in place while it is followed *)
StrictCycle(aux) == \E n \in Nodes08 : OnCycle(aux, n) /\
                      \A k \in (Reach08(aux, n, 3) \cap Nodes08) : OnCycle(aux, k) => FormOf(aux, k) \in {"mapreplace", "strmerge", "listreplace", "interp", "interp2", "interp3"}
Acyclic(aux) == \A n \in Nodes08 : ~OnCycle(aux, n)
LawC08(cs) ==
  LET r == EvalS(cs.docs, NoEnv) IN
  /\ StrictCycle(cs.aux) => ~r.ok
  /\ (Acyclic(cs.aux) /\ \A i \in 1..3 : cs.aux[i][1] # "selfwhole") => (r.ok \/ r.err # "circular")

---------------------------------------------------------------------------
(* PAIRS OF FEATURES.  Every family above varies ONE feature in depth; here   *)
(* every feature meets every other one in five fixed relations: as siblings,  *)
(* one inside the other, next to a reference to the other, as two layers of   *)
(* one key, and in two documents of a stream joined by a cross-document       *)
(* reference.  There is no law beyond the evaluator itself: the real library  *)
(* must agree with the specification on every one of these documents (the     *)
(* harness replays each vector). A pair is part of the family of either       *)
(* feature.                                                                   *)
PairCtx == Mk2("src", Mk2("p", I("1"), "q", L(<<I("1"), I("2")>>)), "n", I("5"))
Frags == {"nlmarker", "strayrepeat", "mergestr", "mergemap", "replacemap", "listmerge", "repeatlist", "repeatmap", "outtrue", "outfalse",
          "encode", "enclist", "interp", "required", "value", "escaped", "delete", "plainmap", "plainlist"}
Frag(f) ==
  CASE f = "mergestr" -> S("$merge:src")
    [] f = "mergemap" -> Mk2("$merge", S("src"), "own", I("1"))
    [] f = "replacemap" -> Single("$replace", S("src"))
    [] f = "listmerge" -> L(<<Single("$merge", S("src.q")), I("9")>>)
    [] f = "repeatlist" -> L(<<Mk2("$repeat", I("2"), "i", S("$repeat"))>>)
    [] f = "repeatmap" -> Single("$\"k{$repeat}\"", Mk2("$repeat", I("2"), "v", S("$repeat")))
    [] f = "outtrue" -> Mk2("$output", True, "o", I("1"))
    [] f = "outfalse" -> Mk2("$output", False, "h", I("1"))
    [] f = "encode" -> Mk2("$encode", S("join:,"), "$value", L(<<S("a"), S("b")>>))
    [] f = "enclist" -> L(<<Single("$encode", S("join:,")), S("a"), S("b")>>)
    [] f = "interp" -> S("$\"<{n}>\"")
    [] f = "required" -> S("$required")
    [] f = "value" -> Single("$value", I("3"))
    [] f = "escaped" -> S("$$lit")
    [] f = "delete" -> S("$delete")
    [] f = "strayrepeat" -> S("$\"n{$repeat}\"")      \* a repeat variable outside every repeat: an error wherever it stands
    [] f = "nlmarker" -> S("$required\nmore")           \* a marker text is one whatever follows it, a line break included
    [] f = "plainmap" -> Mk2("p", I("7"), "r", I("8"))
    [] f = "plainlist" -> L(<<I("7")>>)
FamilyOf(f) ==
  CASE f \in {"mergestr", "mergemap", "replacemap", "listmerge"} -> "C10"
    [] f \in {"repeatlist", "repeatmap"} -> "C12"
    [] f \in {"outtrue", "outfalse"} -> "C11"
    [] f \in {"encode", "enclist"} -> "C14"
    [] f = "interp" -> "C13"
    [] f = "escaped" -> "C06"
    [] OTHER -> "C07"
(* B placed INSIDE A: in the body of a repeat, as one more key of a map, as one more entry of a list *)
Inside(a, b) ==
  CASE a = "repeatlist" -> L(<<Mk3("$repeat", I("2"), "i", S("$repeat"), "in", Frag(b))>>)
    [] a = "repeatmap" -> Single("$\"k{$repeat}\"", Mk3("$repeat", I("2"), "v", S("$repeat"), "in", Frag(b)))
    [] IsMap(Frag(a)) -> Frag(a) %% Single("in", Frag(b))
    [] IsList(Frag(a)) -> L(Elems(Frag(a)) \o <<Frag(b)>>)
    [] OTHER -> Null
PairDoc(rel, a, b) ==
  CASE rel = "pairsib" -> <<PairCtx %% Mk2("a", Frag(a), "b", Frag(b))>>
    [] rel = "pairin" -> <<PairCtx %% Single("a", Inside(a, b))>>
    [] rel = "pairref" -> <<PairCtx %% Mk2("a", Frag(a), "z", Mk2("$merge", S("a"), "extra", Frag(b)))>>
    [] rel = "pairlayer" -> <<PairCtx %% Single("a", Frag(a)), Single("a", Frag(b))>>
    (* the same two documents after a hidden one and around an empty one: positions in the stream do not matter *)
    [] rel = "pairhidden" -> <<Mk2("$output", False, "id", I("0")), PairCtx %% Mk2("id", I("1"), "a", Frag(a)), EmptyMap,
                               Mk3("id", I("2"), "b", Frag(b), "c", Single("$replace", Mk2("$match", Single("id", I("1")), "$path", S("a"))))>>
    [] rel = "pairstream" -> <<PairCtx %% Mk2("id", I("1"), "a", Frag(a)),
                               Mk3("id", I("2"), "b", Frag(b), "c", Single("$replace", Mk2("$match", Single("id", I("1")), "$path", S("a"))))>>
PairRels == {"pairsib", "pairin", "pairref", "pairlayer", "pairstream", "pairhidden"}
(* known findings of the pinned tree are probed by their own checks and left out here: a map-form  *)
(* $merge of a value that is not a map (c10-host-nonmap), an $output-marked map as a direct list   *)
(* entry (c11-map-in-list)                                                                         *)
PairSkip(rel, a, b) ==
  \/ (rel = "pairin" /\ Inside(a, b) = Null)
  \/ (rel = "pairref" /\ ~IsMap(Frag(a)))
  \/ (rel = "pairin" /\ IsList(Frag(a)) /\ a # "repeatlist" /\ b \in {"outtrue", "outfalse"})
PairFor(fam) ==
  UNION {{Case(PairDoc(rel, ab[1], ab[2]), NoEnv, rel) : rel \in {x \in PairRels : ~PairSkip(x, ab[1], ab[2])}}
         : ab \in {x \in Frags \X Frags : FamilyOf(x[1]) = fam \/ FamilyOf(x[2]) = fam}}
(* what an UPPER layer can put over a feature: replacement, deletion, patterns on entries, null, empty  *)
(* containers, a marker, a plain value (relation "pairupper": two layers of the key "a")               *)
Uppers == {"replacemap", "replacelist", "deleteentry", "matchentry", "null", "deletestr", "emptymap", "emptylist", "reqlist", "scalar", "samekeys"}
UpperFrag(u) ==
  CASE u = "replacemap" -> Mk2("$replace", True, "n2", I("1"))
    [] u = "replacelist" -> L(<<I("5"), Single("$replace", True)>>)
    [] u = "deleteentry" -> L(<<Single("$delete", I("9"))>>)
    [] u = "matchentry" -> L(<<Mk2("$match", I("7"), "$value", I("70"))>>)
    [] u = "null" -> Null
    [] u = "deletestr" -> S("$delete")
    [] u = "emptymap" -> EmptyMap
    [] u = "emptylist" -> EmptyList
    [] u = "reqlist" -> L(<<S("$required")>>)
    [] u = "scalar" -> I("4")
    [] u = "samekeys" -> Mk2("own", I("2"), "o", I("2"))
PairUpper(fam) ==
  {Case(<<PairCtx %% Single("a", Frag(a)), Single("a", UpperFrag(u))>>, NoEnv, "pairupper") : a \in {x \in Frags : FamilyOf(x) = fam}, u \in Uppers}
(* the deeper bound: three features - b inside a, c as a sibling, and a reference to the whole of a *)
PairTriple(fam) ==
  IF Bound < 2 THEN {}
  ELSE {Case(<<PairCtx %% Mk3("a", Inside(t[1], t[2]), "b", Frag(t[3]), "z", S("$merge:a"))>>, NoEnv, "pairtriple")
          : t \in {x \in Frags \X Frags \X Frags : FamilyOf(x[1]) = fam /\ ~PairSkip("pairin", x[1], x[2])}}
PairFamilies == {"C06", "C07", "C10", "C11", "C12", "C13", "C14"}

Cases0 == CASE Family = "C14" -> CasesC14(0) [] Family = "C08" -> CasesC08(0) [] Family = "C06" -> CasesC06(0) [] Family = "C07" -> CasesC07(0) [] Family = "C10" -> CasesC10(0)
           [] Family = "C11" -> CasesC11(0) [] Family = "C12" -> CasesC12(0) [] Family = "C13" -> CasesC13(0)
Cases == IF Family \in PairFamilies THEN Cases0 \cup PairFor(Family) \cup PairUpper(Family) \cup PairTriple(Family) ELSE Cases0
Law(cs) == IF cs.tag \in PairRels \cup {"pairupper", "pairtriple"} THEN TRUE ELSE
           CASE Family = "C14" -> LawC14(cs) [] Family = "C08" -> LawC08(cs) [] Family = "C06" -> LawC06(cs) [] Family = "C07" -> LawC07(cs) [] Family = "C10" -> LawC10(cs)
             [] Family = "C11" -> LawC11(cs) [] Family = "C12" -> LawC12(cs) [] Family = "C13" -> LawC13(cs)

(* chains (C06 layered, C07, C12 override) are layered first, as two layers of one file chain *)
IsChain(cs) == cs.tag \in {"layered", "chain07", "override", "rootlistlayer", "rootlistoverride", "pairlayer", "markerlayer", "pairupper"} \/ (Family = "C07" /\ cs.tag \notin PairRels \cup {"pairtriple"})
Result(cs) ==
  IF IsChain(cs) THEN
     LET m == LayerAll(cs.docs) IN
     IF ~m.ok THEN [ok |-> FALSE, err |-> m.err, stage |-> "merge"]
     ELSE LET r == Eval1(m.v) IN
          IF r.ok THEN [ok |-> TRUE, v |-> r.v, stage |-> "eval"] ELSE [ok |-> FALSE, err |-> r.err, stage |-> "eval"]
  ELSE LET r == EvalS(cs.docs, cs.env) IN
       IF r.ok THEN [ok |-> TRUE, v |-> r.v, stage |-> "eval"] ELSE [ok |-> FALSE, err |-> r.err, stage |-> "eval"]

Emit(cs) ==
  LET r == Result(cs) IN
  PrintT("@@V " \o ToJson([family |-> Family, tag |-> cs.tag, chain |-> IsChain(cs), docs |-> cs.docs,
                           env |-> cs.env, ok |-> r.ok, outs |-> IF r.ok THEN r.v ELSE <<>>,
                           err |-> IF r.ok THEN "" ELSE r.err]))

(* a deterministic partition of the cases over TLC processes *)
Mine(cs) == Family = "C08" \/ (Len(ToJson(cs.docs)) % NShards) = Shard

Init == c \in {x \in Cases : Mine(x)} /\ phase = "new"
Next == /\ phase = "new"
        /\ Assert(Law(c), <<"law of the family fails in the specification", Family, c>>)
        /\ Emit(c)
        /\ phase' = "done" /\ c' = c
Spec == Init /\ [][Next]_vars
TypeOK == phase \in {"new", "done"}
=============================================================================
