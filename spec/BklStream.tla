----------------------------- MODULE BklStream -----------------------------
(***************************************************************************)
(* How a layer file is cut into documents.                                 *)
(*                                                                         *)
(* A text is a sequence of LINES; the specification only distinguishes the *)
(* kinds of line that matter for the document structure:                   *)
(*   "c"      a content line (the i-th line carries the key k<i>)          *)
(*   "bare"   the marker line  ---                                         *)
(*   "blank"  the marker line  ---<spaces>                                 *)
(*   "cmt"    the marker line  --- # comment                               *)
(*   "plus"   the marker line  +++          (TOML streams only)            *)
(*   "end"    the YAML document end marker  ...                            *)
(*   "hash"   a comment line,  "nl"  an empty line                         *)
(* A document is the set of the positions of its content lines; Null is    *)
(* the empty YAML document, {} the empty TOML table.  Line endings (LF or  *)
(* CRLF) are not an input of any rule: the harness renders every sequence  *)
(* both ways and expects the same documents.                               *)
(*                                                                         *)
(* ReadYaml / ReadToml follow the code (yamlUnmarshalStream,               *)
(* tomlUnmarshalStream); the laws below are what a user relies on.         *)
(***************************************************************************)
EXTENDS Naturals, Sequences, FiniteSets

Kinds == {"c", "bare", "blank", "cmt", "plus", "end", "hash", "nl"}
YamlMarkers == {"bare", "blank", "cmt"}
TomlMarkers == {"bare", "plus"}

NullDoc == [null |-> TRUE, keys |-> {}]
Doc(ks) == [null |-> FALSE, keys |-> ks]
Bad == [ok |-> FALSE, docs |-> <<>>]
Good(ds) == [ok |-> TRUE, docs |-> ds]

(* YAML: a little machine over the lines.                                   *)
(*   st = "start"  nothing but comments / empty lines so far                *)
(*        "open"   a document is open (by a marker or by content)           *)
(*        "closed" the document was closed by "..."                         *)
RECURSIVE YamlGo(_, _, _, _, _)
YamlGo(ls, i, st, cur, docs) ==
  LET emit == IF cur = {} THEN NullDoc ELSE Doc(cur) IN
  IF i > Len(ls) THEN
     IF st = "closed" THEN Good(docs) ELSE Good(Append(docs, emit))     \* the open (or never opened) document
  ELSE LET k == ls[i] IN
       IF k = "c" THEN
          IF st = "closed" THEN Bad                                        \* content after "..." needs a marker first
          ELSE YamlGo(ls, i + 1, "open", cur \cup {i}, docs)
       ELSE IF k \in YamlMarkers THEN
          IF st = "open" THEN YamlGo(ls, i + 1, "open", {}, Append(docs, emit))
          ELSE YamlGo(ls, i + 1, "open", {}, docs)                         \* a leading marker, or the marker after "..."
       ELSE IF k = "end" THEN
          IF st = "open" /\ cur # {} THEN YamlGo(ls, i + 1, "closed", {}, Append(docs, emit))
          ELSE Bad                                                         \* outside the modelled domain (see InYamlDomain)
       ELSE IF k = "plus" THEN Bad                                          \* not YAML
       ELSE YamlGo(ls, i + 1, st, cur, docs)                               \* comments and empty lines
ReadYaml(ls) == YamlGo(ls, 1, "start", {}, <<>>)

(* "..." is modelled only directly after content; "+++" is no YAML *)
InYamlDomain(ls) ==
  /\ \A i \in DOMAIN ls : ls[i] # "plus"
  /\ \A i \in DOMAIN ls : ls[i] = "end" => (i > 1 /\ ls[i - 1] = "c")

(* TOML: the text is split at every bare marker line; a part is a table *)
RECURSIVE TomlGo(_, _, _, _)
TomlGo(ls, i, cur, docs) ==
  IF i > Len(ls) THEN Good(Append(docs, Doc(cur)))
  ELSE LET k == ls[i] IN
       IF k = "c" THEN TomlGo(ls, i + 1, cur \cup {i}, docs)
       ELSE IF k \in TomlMarkers THEN TomlGo(ls, i + 1, {}, Append(docs, Doc(cur)))
       ELSE IF k \in {"hash", "nl"} THEN TomlGo(ls, i + 1, cur, docs)
       ELSE Bad                                                            \* "--- ", "--- # c", "..." are not TOML
ReadToml(ls) == TomlGo(ls, 1, {}, <<>>)

---------------------------------------------------------------------------
(* laws *)
Respell(ls, m) == [i \in DOMAIN ls |-> IF ls[i] \in YamlMarkers THEN m ELSE ls[i]]
(* how a marker is spelled does not matter *)
MarkerSpellingFree(ls) == InYamlDomain(ls) => \A m \in YamlMarkers : ReadYaml(ls) = ReadYaml(Respell(ls, m))
(* comments and empty lines do not matter *)
Strip(ls) == SelectSeq(ls, LAMBDA k : k \notin {"hash", "nl"})
(* (positions change when lines are removed: compare the shapes) *)
Shape(r) == [ok |-> r.ok, docs |-> [i \in DOMAIN r.docs |-> IF r.docs[i].null THEN 0 ELSE Cardinality(r.docs[i].keys) + 1]]
CommentsFree(ls) == InYamlDomain(ls) => Shape(ReadYaml(ls)) = Shape(ReadYaml(Strip(ls)))
(* no document is ever lost: every content line is in exactly one document *)
NothingLost(r, ls) ==
  r.ok => /\ \A i \in DOMAIN ls : ls[i] = "c" => Cardinality({d \in DOMAIN r.docs : i \in r.docs[d].keys}) = 1
          /\ \A d \in DOMAIN r.docs : \A i \in r.docs[d].keys : i \in DOMAIN ls /\ ls[i] = "c"
(* the number of documents is the number of markers that follow an open document, plus one *)
(* a stream without empty documents and without a leading marker reads the same as YAML and as TOML *)
Plain(ls) ==
  /\ \A i \in DOMAIN ls : ls[i] \in {"c", "bare", "hash", "nl"}
  /\ Len(ls) > 0 /\ ls[1] = "c" /\ ls[Len(ls)] = "c"
  /\ \A i \in DOMAIN ls : ls[i] = "bare" => \E j \in (i + 1)..Len(ls) : ls[j] = "c" /\ \A q \in (i + 1)..(j - 1) : ls[q] # "bare"
FormatFree(ls) == Plain(ls) => LET y == ReadYaml(ls)  t == ReadToml(ls) IN
                               y.ok /\ t.ok /\ [i \in DOMAIN y.docs |-> y.docs[i].keys] = [i \in DOMAIN t.docs |-> t.docs[i].keys]
StreamLaws(ls) ==
  /\ MarkerSpellingFree(ls) /\ CommentsFree(ls) /\ FormatFree(ls)
  /\ (InYamlDomain(ls) => NothingLost(ReadYaml(ls), ls))
  /\ NothingLost(ReadToml(ls), ls)
=============================================================================
