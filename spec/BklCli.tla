----------------------------- MODULE BklCli -----------------------------
(***************************************************************************)
(* Process-level machines: one run of `bkl`, the wrapper `bklb`, and the   *)
(* termination protocol every tool obeys (C08).                            *)
(***************************************************************************)
EXTENDS BklFiles

(* output format of `bkl`: -f, else the -o file's extension, else the      *)
(* first input's (possibly virtual) extension; json-pretty when nothing    *)
(* decides                                                                 *)
FormatClass(f) == CASE f \in {"json", "jsonl"} -> "json"
                    [] f = "json-pretty" -> "json-pretty"
                    [] f \in {"yaml", "yml"} -> "yaml"
                    [] f = "toml" -> "toml"
                    [] OTHER -> "unknown"
FFlagChoices == {"json", "json-pretty", "toml", "yaml"}
ChooseFormat(fflag, opath, inputs) ==
  IF fflag # "" THEN (IF fflag \in FFlagChoices THEN Ok(fflag) ELSE Err("usage"))
  ELSE IF opath # "" THEN (IF ExtOf(opath) \in Exts THEN Ok(ExtOf(opath)) ELSE Err("unknownformat"))
  ELSE IF Len(inputs) = 0 THEN Err("usage")
  ELSE Ok(ExtOf(inputs[1]))

(* the two terminal shapes of every tool invocation *)
ProtocolOK(run) ==
  /\ ~run.timedOut /\ ~run.signaled
  /\ \/ run.exit = 0
     \/ run.exit # 0 /\ run.stdoutEmpty /\ ~run.stderrEmpty /\ ~run.panicked
=============================================================================
