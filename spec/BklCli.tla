----------------------------- MODULE BklCli -----------------------------
(***************************************************************************)
(* Process-level machines: one run of `bkl`, the wrapper `bklb`, and the   *)
(* termination protocol every tool obeys (C08).                            *)
(***************************************************************************)
EXTENDS BklFiles

(* output format of `bkl`: -f, else the -o file's extension, else the      *)
(* first input's (possibly virtual) extension; json-pretty when nothing    *)
(* decides                                                                 *)
FormatClass(f) == CASE f \in {"json", "jsonl"} -> "json"
                    [] f = "json-pretty" -> "json-pretty"
                    [] f \in {"yaml", "yml"} -> "yaml"
                    [] f = "toml" -> "toml"
                    [] OTHER -> "unknown"
FFlagChoices == {"json", "json-pretty", "toml", "yaml"}
ChooseFormat(fflag, opath, inputs) ==
  IF fflag # "" THEN (IF fflag \in FFlagChoices THEN Ok(fflag) ELSE Err("usage"))
  ELSE IF opath # "" THEN (IF ExtOf(opath) \in Exts THEN Ok(ExtOf(opath)) ELSE Err("unknownformat"))
  ELSE IF Len(inputs) = 0 THEN Err("usage")
  ELSE Ok(ExtOf(inputs[1]))

(* bklb / kubectl-bkl (wrapper.go): every argument that names a bkl-         *)
(* resolvable file (real, or virtual under another supported extension) is  *)
(* replaced by a file holding the evaluated layers in the format of the     *)
(* named extension; everything else passes through; a failing evaluation    *)
(* stops the wrapper before the wrapped program is run.                     *)
WrapArg(fs, cwd, arg, env) ==
  LET fm == FileMatch(fs, Abs(cwd, arg)) IN
  IF ~fm.ok THEN [kind |-> "same", value |-> arg]
  ELSE LET r == RunLayers(fs, NoRoot, <<Abs(cwd, arg)>>, FALSE, env) IN
       IF ~r.ok THEN (IF r.err = "undef" THEN [kind |-> "undef"] ELSE [kind |-> "fatal"])
       ELSE [kind |-> "file", format |-> FormatClass(ExtOf(arg)), outs |-> r.v.outs]
WrapOp(fs, cwd, args, env) ==
  LET rs == [i \in DOMAIN args |-> WrapArg(fs, cwd, args[i], env)] IN
  [exec |-> \A i \in DOMAIN rs : rs[i].kind # "fatal",
   undef |-> \E i \in DOMAIN rs : rs[i].kind = "undef",
   argv |-> rs]

(* the two terminal shapes of every tool invocation *)
ProtocolOK(run) ==
  /\ ~run.timedOut /\ ~run.signaled
  /\ \/ run.exit = 0
     \/ run.exit # 0 /\ run.stdoutEmpty /\ ~run.stderrEmpty /\ ~run.panicked
=============================================================================
