----------------------------- MODULE MC_Stream -----------------------------
(***************************************************************************)
(* Bounded model of the document structure of layer files: every sequence  *)
(* of at most MaxLines lines over the eight kinds of line.  TLC asserts    *)
(* the laws of BklStream on each and prints it with the documents YAML and *)
(* TOML readers must produce; the harness renders the sequence as text     *)
(* (LF and CRLF) and gives it to the real Parser.                          *)
(***************************************************************************)
EXTENDS BklStream, TLC, Json, SequencesExt

CONSTANTS MaxLines, Shard, NShards
VARIABLES ls, phase
vars == <<ls, phase>>

RECURSIVE Seqs(_)
Seqs(n) == IF n = 0 THEN {<<>>} ELSE {Append(q, k) : q \in Seqs(n - 1), k \in Kinds}
All == UNION {Seqs(n) : n \in 0..MaxLines}

RECURSIVE Weight(_)
Weight(q) == IF Len(q) = 0 THEN 0 ELSE Len(q[1]) + 3 * Weight(Tail(q))
Mine(q) == (Weight(q) + Len(q)) % NShards = Shard

DocsOut(r) == [i \in DOMAIN r.docs |-> IF r.docs[i].null THEN [null |-> TRUE, keys |-> <<>>]
                                        ELSE [null |-> FALSE, keys |-> SetToSeq(r.docs[i].keys)]]
Emit(q) ==
  LET y == ReadYaml(q)  t == ReadToml(q) IN
  PrintT("@@V " \o ToJson([lines |-> q,
                           yaml |-> [model |-> InYamlDomain(q), ok |-> y.ok, docs |-> DocsOut(y)],
                           toml |-> [model |-> TRUE, ok |-> t.ok, docs |-> DocsOut(t)]]))

Init == ls \in {q \in All : Mine(q)} /\ phase = "new"
Next == /\ phase = "new"
        /\ Assert(StreamLaws(ls), <<"a stream law fails in the specification", ls>>)
        /\ Emit(ls)
        /\ phase' = "done" /\ ls' = ls
Spec == Init /\ [][Next]_vars
TypeOK == phase \in {"new", "done"}
=============================================================================
