----------------------------- MODULE MC_Tools -----------------------------
(***************************************************************************)
(* Bounded universes for bklr (C17), bkld (C15) and bkli (C16).            *)
(* C17: every placement of $required on a 5-position tree under 6 upper    *)
(*      layers; TLC asserts that the transcribed algorithm equals the       *)
(*      declarative Skeleton and prints each case with the expected output. *)
(* C15: a base and every target obtained by one edit (two in the deeper     *)
(*      bound) from the edit catalogue of the property; TLC evaluates the   *)
(*      contract DiffOK on the transcribed algorithm DiffDocModel (design   *)
(*      exploration: `modelok` in the vector) and prints the pair.          *)
(* C16: every pair / triple of such targets in every order; IntersectOK on  *)
(*      IntersectModel likewise.                                            *)
(* The harness runs the REAL tools on every printed case and TLC judges     *)
(* their real output (BklTrace!TTool).                                      *)
(***************************************************************************)
EXTENDS BklTools, Json, SequencesExt

CONSTANTS Family, Bound, Shard, NShards

VARIABLES c, phase
vars == <<c, phase>>

AsciiOrder == <<" ","!","\"","#","$","%","&","'","(",")","*","+",",","-",".","/",
  "0","1","2","3","4","5","6","7","8","9",":",";","<","=",">","?","@",
  "A","B","C","D","E","F","G","H","I","J","K","L","M","N","O","P","Q","R","S","T","U","V","W","X","Y","Z",
  "[","\\","]","^","_","`",
  "a","b","c","d","e","f","g","h","i","j","k","l","m","n","o","p","q","r","s","t","u","v","w","x","y","z",
  "{","|","}","~">>
AsciiLower == {"a","b","c","d","e","f","g","h","i","j","k","l","m","n","o","p","q","r","s","t","u","v","w","x","y","z"}

Mk2(k1, v1, k2, v2) == M(k1 :> v1 @@ k2 :> v2)
Mk3(k1, v1, k2, v2, k3, v3) == M(k1 :> v1 @@ k2 :> v2 @@ k3 :> v3)
Mk4(k1, v1, k2, v2, k3, v3, k4, v4) == M(k1 :> v1 @@ k2 :> v2 @@ k3 :> v3 @@ k4 :> v4)

---------------------------------------------------------------------------
(* C17 *)
a %% b == M([k \in Keys(a) \cup Keys(b) |-> IF Has(b, k) THEN At(b, k) ELSE At(a, k)])
X(b) == IF b THEN Req ELSE I("1")
(* positions 6 and 7: a marker two levels below a list entry, and below a list nested in a list -- *)
(* what has to be pruned there is not visible from the entry's own size                         *)
Tree17(p) == Mk3("a", X(p[1]), "b", Mk2("c", X(p[2]), "d", L(<<X(p[3]), I("7")>>)), "l", L(<<X(p[4]), Single("e", X(p[5]))>>))
             %% Mk2("n", L(<<Single("f", Mk2("g", X(p[6]), "h", I("1")))>>), "q", L(<<L(<<Mk2("c", X(p[7]), "d", I("1"))>>)>>))
             %% Single("$Up", Mk2("r", X(p[8]), "s", I("1")))     \* a key that starts with "$" without being a directive
Uppers17 == {Null, Single("a", I("2")), Single("b", Single("c", I("3"))), Single("l", L(<<I("9")>>)),
             (* an upper layer may itself bring a marker into a list that exists below *)
             Single("l", L(<<Req>>)), Single("b", Single("d", L(<<I("5"), Req>>))),
             Single("b", Single("d", L(<<I("5")>>))), Single("z", Req),
             (* an explicitly EMPTY list is a value too: it satisfies the marker in the list below it *)
             Single("l", EmptyList), Single("b", Single("d", EmptyList)), Mk2("l", EmptyList, "n", EmptyList),
             (* ... and so does a list that only EDITS entries of the list below *)
             Single("b", Single("d", L(<<Single("$delete", I("7"))>>))), Single("l", L(<<Mk2("$match", Single("e", I("1")), "z", I("1"))>>)),
             Single("b", Single("d", L(<<Mk2("$match", I("7"), "$value", I("8"))>>))), Mk2("a", I("2"), "b", Mk2("c", I("3"), "d", L(<<I("5")>>)))}
CasesC17(lazy) ==
  {[layers |-> IF IsNull(u) THEN <<Tree17(p)>> ELSE <<Tree17(p), u>>] : p \in [1..8 -> BOOLEAN], u \in Uppers17}

---------------------------------------------------------------------------
(* C15 / C16: the edit catalogue *)
E1 == Single("k", I("1"))
E2 == Mk2("k", I("1"), "j", I("2"))
E3 == Mk2("name", S("app"), "ports", L(<<Single("cp", I("80"))>>))
E3x == Mk2("name", S("app"), "ports", L(<<Mk2("cp", I("80"), "proto", S("tcp"))>>))
Base15 == Mk4("a", I("1"), "m", Mk2("x", I("1"), "y", L(<<I("1"), I("2")>>)), "l", L(<<E1, E2, I("3")>>), "s", S("str"))
SetM(t, k, v) == Put(t, "m", Put(At(t, "m"), k, v))
Edits(t) ==
  { Put(t, "a", I("2")), Del(t, "a"), Put(t, "n", L(<<S("new")>>)), Put(t, "s", S("other")),
    (* a key removed while more keys are added: the map grows although something has to be deleted *)
    Put(Put(Del(t, "a"), "n1", I("1")), "n2", Single("deep", I("2"))),
    Put(t, "m", Put(Put(Del(At(t, "m"), "x"), "p", I("1")), "q", L(<<I("2")>>))),
    Put(Put(Del(t, "l"), "n1", I("1")), "n2", I("2")),
    SetM(t, "x", I("9")), Put(t, "m", Del(At(t, "m"), "x")), SetM(t, "z", Single("deep", True)),
    SetM(t, "y", L(<<I("1"), I("2"), I("3")>>)), SetM(t, "y", L(<<I("2"), I("1")>>)), SetM(t, "y", L(<<I("1")>>)),
    SetM(t, "y", L(<<I("1"), I("1"), I("2")>>)), SetM(t, "y", L(<<I("0"), I("1"), I("2")>>)), SetM(t, "y", EmptyList),
    Put(t, "l", L(<<E2, I("3")>>)), Put(t, "l", L(<<E1, I("3")>>)), Put(t, "l", L(<<E1, E2>>)),
    Put(t, "l", L(<<E1, E2, I("3"), Single("z", I("0"))>>)), Put(t, "l", L(<<I("3"), E2, E1>>)),
    Put(t, "l", L(<<E1, E1, E2, I("3")>>)), Put(t, "l", L(<<Single("z", I("0")), E1, E2, I("3")>>)),
    Put(t, "l", L(<<Mk2("k", I("1"), "j", I("3")), E1, I("3")>>)) }
KindEdits(t) ==
  { Put(t, "m", I("5")), Put(t, "m", L(<<I("1")>>)), Put(t, "l", Single("q", I("1"))), Put(t, "l", S("s")),
    Put(t, "a", Single("z", I("1"))), Put(t, "a", L(<<I("1")>>)), Put(t, "s", EmptyMap), Put(t, "m", EmptyMap),
    SetM(t, "y", I("0")), SetM(t, "x", L(<<I("1")>>)) }
Targets15 == {Base15} \cup Edits(Base15) \cup KindEdits(Base15)
              \cup (IF Bound >= 2 THEN UNION {Edits(t) : t \in Edits(Base15)} ELSE {})

IsKindChange(b, t) == t \in KindEdits(b)
(* several kind changes in one branch, at nested depths and in every key order *)
Deep15 == Single("p", Mk3("c", Mk2("k", L(<<I("1"), I("2")>>), "keep", I("1")), "a", Single("q", I("1")), "z", L(<<S("a")>>)))
DeepTargets15 ==
  { Single("p", Mk3("c", Mk2("k", kv, "keep", I("1")), "a", av, "z", zv))
      : kv \in {L(<<I("1"), I("2")>>), I("5"), Single("m", I("1"))},
        av \in {Single("q", I("1")), I("0"), L(<<I("1")>>)},
        zv \in {L(<<S("a")>>), S("done"), Single("m", I("2"))} }
(* edits fourteen levels down: depth is not a parameter of the contract *)
RECURSIVE Nest15(_, _)
Nest15(n, leaf) == IF n = 0 THEN leaf ELSE Single("d" \o NatStr(n), Nest15(n - 1, leaf))
DeepLeaves15 == { <<Mk2("a", I("1"), "b", I("2")), Single("a", I("1"))>>, <<Single("a", I("1")), Mk2("a", I("1"), "b", I("2"))>>,
                  <<Single("l", L(<<E1, E2>>)), Single("l", L(<<E1>>))>>, <<Single("l", L(<<E1>>)), Single("l", L(<<E2, E1>>))>>,
                  <<Mk2("a", I("1"), "b", I("2")), Mk2("a", I("3"), "c", I("2"))>> }
CasesC15(lazy) == {[base |-> Base15, target |-> t] : t \in Targets15}
            \cup {[base |-> Nest15(14, lf[1]), target |-> Nest15(14, lf[2])] : lf \in DeepLeaves15}
            \cup {[base |-> Deep15, target |-> t] : t \in DeepTargets15}
            \cup {[base |-> t, target |-> Deep15] : t \in DeepTargets15}
            \cup {[base |-> t, target |-> Base15] : t \in Edits(Base15) \cup KindEdits(Base15)}
            (* a removed entry that is a partial match of an entry kept EARLIER in the list (before the first difference) *)
            \cup {[base |-> Put(Base15, "l", pr[1]), target |-> Put(Base15, "l", pr[2])]
                    : pr \in { <<L(<<E2, E1, I("3")>>), L(<<E2, I("3")>>)>>, <<L(<<E2, EmptyMap, I("3")>>), L(<<E2, I("3")>>)>>,
                               <<L(<<I("3"), E2, E1>>), L(<<I("3"), E2>>)>>, <<L(<<E2, E1, E1>>), L(<<E2, E1>>)>>,
                               <<L(<<E2, E1>>), L(<<E2, E1, E1>>)>>,
                               (* the partial match sits one list deeper: an entry holding a list of maps, edited inside that list *)
                               <<L(<<E3>>), L(<<E3x>>)>>, <<L(<<E3x>>), L(<<E3>>)>>, <<L(<<E3, E1>>), L(<<E3x, E1>>)>>,
                               <<L(<<E3, E3x>>), L(<<E3x>>)>>, <<L(<<E3, E3x>>), L(<<E3>>)>>, <<L(<<E1, E3>>), L(<<E1, E3x, E3>>)>> }}

Unrelated == Mk2("q", I("1"), "l", L(<<S("u")>>))
(* values that print alike but differ in type are different values *)
TypeEdits(t) == { Put(t, "l", L(<<Single("k", S("1")), E2, I("3")>>)), Put(t, "l", L(<<E1, E2, S("3")>>)),
                  Put(t, "a", S("1")), SetM(t, "y", L(<<S("1"), I("2")>>)), Put(t, "s", True),
                  (* strings that differ only in what a reader may be tempted to trim or fold *)
                  Put(t, "s", S("str\n")), Put(t, "s", S("str ")), Put(t, "s", S("Str")), Put(t, "s", S(" str")),
                  (* two integers that are one double *)
                  Put(t, "big", I("9007199254740993")), Put(t, "big", I("9007199254740992")),
                  SetM(t, "ts", I("1700000000000000001")), SetM(t, "ts", I("1700000000000000000")) }
Pool16 == {Base15, Unrelated} \cup Edits(Base15) \cup KindEdits(Base15) \cup TypeEdits(Base15)
(* three inputs whose lists share nothing, something, or are empty, in every order: the running result *)
(* of the first two ([$required] when they differ) meets the third                                     *)
Lists16 == {L(<<I("1")>>), L(<<I("2")>>), EmptyList, L(<<I("1"), I("2")>>)}
CasesC16(lazy) == {[inputs |-> <<x, y>>] : x \in Pool16, y \in Pool16}
            \cup {[inputs |-> <<Mk2("a", I("1"), "l", x), Mk2("a", I("1"), "l", y), Mk2("a", I("1"), "l", z)>>] : x \in Lists16, y \in Lists16, z \in Lists16}
            \cup (IF Bound >= 2 THEN {[inputs |-> <<Base15, x, y>>] : x \in Edits(Base15), y \in {Put(Base15, "a", I("2")), Del(Base15, "a"), SetM(Base15, "y", L(<<I("2"), I("1")>>)), Unrelated}} ELSE {})

---------------------------------------------------------------------------
Cases == CASE Family = "C17" -> CasesC17(0) [] Family = "C15" -> CasesC15(0) [] Family = "C16" -> CasesC16(0)

RECURSIVE FoldIntersect(_, _)
FoldIntersect(acc, xs) == IF Len(xs) = 0 THEN acc ELSE FoldIntersect(IntersectModel(xs[1], acc), Tail(xs))

Emit(cs) ==
  CASE Family = "C17" ->
         LET m == MergeChain(cs.layers[1], Tail(cs.layers)) IN
         PrintT("@@V " \o ToJson([family |-> Family, layers |-> cs.layers, ok |-> m.ok,
                                  out |-> IF m.ok THEN Skeleton(m.v) ELSE Null]))
    [] Family = "C15" ->
         LET lay == DiffDocModel(cs.target, cs.base) IN
         PrintT("@@V " \o ToJson([family |-> Family, base |-> cs.base, target |-> cs.target, modellayer |-> lay,
                                  modelok |-> DiffOK(cs.base, cs.target, lay), kindchange |-> cs.target \in KindEdits(Base15) \/ cs.base \in KindEdits(Base15) \/ cs.base = Deep15 \/ cs.target = Deep15]))
    [] Family = "C16" ->
         LET r == FoldIntersect(cs.inputs[1], Tail(cs.inputs)) IN
         PrintT("@@V " \o ToJson([family |-> Family, inputs |-> cs.inputs, modelout |-> r,
                                  modelok |-> ~IsNull(r) /\ IntersectOK(r, cs.inputs)]))

Eval1x(d) == EvalAll(<<[id |-> "d", data |-> d]>>, <<>>)
Law(cs) ==
  IF Family = "C17" THEN
     LET m == MergeChain(cs.layers[1], Tail(cs.layers)) IN
     m.ok => /\ RequiredModel(m.v) = Skeleton(m.v)
             /\ (IsNull(Skeleton(m.v)) \/ OnlyMarkers(Skeleton(m.v)))
             /\ Skeleton(Skeleton(m.v)) = Skeleton(m.v)
             /\ (~IsNull(Skeleton(m.v))) = (Eval1x(m.v).ok = FALSE)
  ELSE TRUE

Mine(cs) == (Len(ToJson(cs)) % NShards) = Shard
Init == c \in {x \in Cases : Mine(x)} /\ phase = "new"
Next == /\ phase = "new"
        /\ Assert(Law(c), <<"law fails in the specification", Family, c>>)
        /\ Emit(c)
        /\ phase' = "done" /\ c' = c
Spec == Init /\ [][Next]_vars
TypeOK == phase \in {"new", "done"}
=============================================================================
