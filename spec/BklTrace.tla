----------------------------- MODULE BklTrace -----------------------------
(***************************************************************************)
(* Trace validation: executions recorded from the real gopatchy/bkl code   *)
(* (library calls and CLI runs, one ndjson line per public call / process  *)
(* exit, carrying the full projected post-state) are checked against the   *)
(* specification.  Line 1 is a header (character order, lower-case set,    *)
(* environment); the remaining lines are events.                           *)
(*                                                                         *)
(* The machines are deterministic and every event carries its observed     *)
(* result, so validation is a linear walk: one TLC state per event.  The   *)
(* walk does not stop at the first disagreement; it records the event      *)
(* index in `bad`, drops the current Parser session (until the next Reset) *)
(* and goes on, so one rejected event does not hide the rest of the file.  *)
(***************************************************************************)
EXTENDS BklResolver, Json, SequencesExt

TraceFile == "trace.ndjson"
Trace     == ndJsonDeserialize(TraceFile)
Header    == Trace[1]
TraceCharOrder == Header.charOrder
TraceLowerSet  == {Header.lower[i] : i \in DOMAIN Header.lower}

VARIABLES l,      \* index of the next trace line to consume
          docs,   \* specification state of the current Parser session
          par,
          live,   \* "ok" | "failed" (the real call reported an error) | "lost" (after a disagreement)
          bad,    \* set of <<line, reason>> the specification rejects
          nchk,   \* number of events whose result was actually compared
          nundef, \* number of events outside the modelled domain (no verdict)
          shas,   \* [format -> digest] of the output calls since the last state change
          firsts, \* [input key -> <<ok, digest>>] of the first run of every input (C09)
          needs,  \* set of <<line, name, argument>>: codec values the environment must supply
          rs      \* state of the small-step resolver while a step log is being validated
vars == <<l, docs, par, live, bad, nchk, nundef, shas, firsts, needs, rs>>

Ev == Trace[l]
IsEvent(n) == l <= Len(Trace) /\ Trace[l].ev = n
Advance == /\ l' = l + 1
           /\ (IF l <= Len(Trace) /\ Trace[l].ev = "Repeat" THEN TRUE ELSE UNCHANGED firsts)
           /\ (IF l <= Len(Trace) /\ Trace[l].ev \in {"Eval", "Output"} THEN TRUE ELSE UNCHANGED needs)
           /\ (IF l <= Len(Trace) /\ Trace[l].ev \in {"RBegin", "RStep", "REnd"} THEN TRUE ELSE UNCHANGED rs)
(* an evaluation that stopped at a missing codec value: no verdict, the need is recorded *)
NoteNeed(r) == needs' = IF ~r.ok /\ r.err = "need" THEN needs \cup {<<l, r.need.name, r.need.arg>>} ELSE needs
Keep == UNCHANGED <<docs, par, live>>
ShaOf(e) == IF "sha" \in DOMAIN e THEN e.sha ELSE ""

(* record a verdict: "" agrees, "undef" no verdict, anything else rejects *)
Verdict(j) ==
  /\ bad' = IF j \notin {"", "undef"} THEN bad \cup {<<l, j>>} ELSE bad
  /\ nundef' = IF j = "undef" THEN nundef + 1 ELSE nundef
  /\ nchk' = IF j = "undef" THEN nchk ELSE nchk + 1

(* comparison of a specification result r = [ok, v | err] with an observed *)
(* evaluation event e = [ok, outs]                                         *)
(* optional fields of an evaluation event:                                 *)
(*   expect   - the outputs demanded by the property's law, computed by an *)
(*              independent oracle of the driver (hand substitution, hand  *)
(*              assembled string, escaped original ...)                    *)
(*   expecterr- present when the law demands a failure                     *)
(*   laws     - names of declarative laws to evaluate on the OBSERVED      *)
(*              outputs: "nomarker" (C07), "output" (C11)                  *)
LawsOf(e) == IF "laws" \in DOMAIN e THEN {e.laws[i] : i \in DOMAIN e.laws} ELSE {}
ExpectedOutputs(ds) ==
  FoldRes(LAMBDA acc, d : Ok(acc \o Expected11(IF "data" \in DOMAIN d THEN d.data ELSE d)), <<>>, ds).v
JudgeLaws(r, e, ds) ==
  IF "expecterr" \in DOMAIN e /\ (r.ok \/ e.ok) THEN "the law demands an error"
  ELSE IF "expect" \in DOMAIN e /\ ~(r.ok /\ r.v = e.expect)
       THEN "the specification does not satisfy the law"
  ELSE IF "expect" \in DOMAIN e /\ ~(e.ok /\ e.outs = e.expect)
       THEN "the code does not satisfy the law"
  ELSE IF "nomarker" \in LawsOf(e) /\ e.ok /\ \E i \in DOMAIN e.outs : ~NoMarker(e.outs[i])
       THEN "unresolved marker in the output"
  ELSE IF "output" \in LawsOf(e) /\ ~(e.ok /\ SameBag(e.outs, ExpectedOutputs(ds)))
       THEN "outputs are not exactly the marked subtrees"
  ELSE ""

JudgeEval(r, e) ==
  IF ~r.ok /\ r.err \in {"undef", "need"} THEN "undef"
  ELSE IF r.ok /\ ~e.ok THEN "spec evaluates, code failed"
  ELSE IF ~r.ok /\ e.ok THEN "spec fails (" \o r.err \o "), code evaluated"
  ELSE IF r.ok /\ r.v # e.outs THEN "outputs differ"
  ELSE IF ~r.ok /\ "errclass" \in DOMAIN e /\ e.errclass # "" /\ e.errclass # r.err
       THEN "error class differs: spec " \o r.err
  ELSE ""

EnvOf(e) == IF "env" \in DOMAIN e THEN e.env ELSE <<>>
CodecOf(e) == IF "codec" \in DOMAIN e THEN e.codec ELSE <<>>

TInit == /\ l = 2 /\ docs = <<>> /\ par = <<>> /\ live = "ok" /\ bad = {} /\ nchk = 0 /\ nundef = 0
         /\ shas = <<>> /\ firsts = <<>> /\ needs = {} /\ rs = [status |-> "idle"]

(* a new Parser *)
TReset ==
  /\ IsEvent("Reset") /\ Advance
  /\ docs' = <<>> /\ par' = <<>> /\ live' = "ok" /\ shas' = <<>>
  /\ UNCHANGED <<bad, nchk, nundef>>

(* events of a session that already failed or was lost are skipped *)
TSkip ==
  /\ l <= Len(Trace) /\ Ev.ev \in {"MergeDocument", "Documents", "Output"}
  /\ live # "ok" /\ Advance /\ needs' = needs
  /\ UNCHANGED <<docs, par, live, bad, nchk, nundef, shas>>

TMergeDocument ==
  /\ IsEvent("MergeDocument") /\ live = "ok" /\ Advance /\ shas' = <<>>
  /\ LET e == Ev
         r == MergeDocumentOp(docs, par, e.patch)
         j == IF r.ok /\ ~e.ok THEN "spec accepts, code rejected"
              ELSE IF ~r.ok /\ e.ok THEN "spec rejects (" \o r.err \o "), code accepted"
              ELSE IF r.ok /\ r.docs # e.docs THEN "documents differ"
              ELSE ""
     IN /\ Verdict(j)
        /\ IF j # "" THEN live' = "lost" /\ UNCHANGED <<docs, par>>
           ELSE IF ~r.ok THEN live' = "failed" /\ UNCHANGED <<docs, par>>
           ELSE docs' = r.docs /\ par' = r.par /\ UNCHANGED live

(* Documents(): must be exactly the merged, unevaluated state *)
TDocuments ==
  /\ IsEvent("Documents") /\ live = "ok" /\ Advance /\ UNCHANGED shas
  /\ LET j == IF Ev.docs # docs THEN "Documents() differs from the merged state" ELSE "" IN
     /\ Verdict(j)
     /\ IF j # "" THEN live' = "lost" /\ UNCHANGED <<docs, par>> ELSE Keep

(* Output in a live session: outputs computed from the merged state; the   *)
(* state itself must not change (C19)                                      *)
TOutput ==
  /\ IsEvent("Output") /\ live = "ok" /\ Advance /\ Keep
  /\ LET e == Ev
         r == EvalAllC(docs, EnvOf(e), CodecOf(e))
         j0 == JudgeEval(r, e)
         j == IF j0 = "" THEN JudgeLaws(r, e, docs) ELSE j0
         f == IF "format" \in DOMAIN e THEN e.format ELSE ""
         stale == e.ok /\ ShaOf(e) # "" /\ f \in DOMAIN shas /\ shas[f] # ShaOf(e)
     IN /\ NoteNeed(r)
        /\ Verdict(IF j = "" /\ stale THEN "two output calls on the same state returned different bytes" ELSE j)
        /\ shas' = IF e.ok /\ ShaOf(e) # "" /\ f \notin DOMAIN shas
                   THEN [x \in (DOMAIN shas) \cup {f} |-> IF x = f THEN ShaOf(e) ELSE shas[x]]
                   ELSE shas

(* stateless evaluation of a document stream *)
TEval ==
  /\ IsEvent("Eval") /\ Advance /\ Keep /\ UNCHANGED shas
  /\ LET r == EvalAllC(Ev.docs, EnvOf(Ev), CodecOf(Ev))
         j == JudgeEval(r, Ev)
     IN NoteNeed(r) /\ Verdict(IF j = "" THEN JudgeLaws(r, Ev, Ev.docs) ELSE j)

(* one run of `bkl` over a materialised directory layout: layers resolved   *)
(* from file names, $parent and symbolic links, merged and evaluated; with  *)
(* a root set, every content read (observed with strace) lies inside it     *)
FsOfEvent(e) ==
  [p \in DOMAIN e.fs |->
     IF e.fs[p].kind = "file" THEN [kind |-> "file", docs |-> e.fs[p].docs]
     ELSE IF e.fs[p].kind = "symlink" THEN [kind |-> "symlink", target |-> e.fs[p].target]
     ELSE [kind |-> "other"]]
TRun ==
  /\ IsEvent("Run") /\ Advance /\ Keep /\ UNCHANGED shas
  /\ LET e == Ev
         rt == IF "roots" \in DOMAIN e THEN SetRoots(FsOfEvent(e), NoRoot, e.roots) ELSE Ok(RootAt(e.root))
         r == IF ~rt.ok THEN rt ELSE RunLayers(FsOfEvent(e), rt.v, e.inputs, e.skip, EnvOf(e))
         j == IF ~r.ok /\ r.err \in {"undef", "need"} THEN "undef"   \* "need": a byte-level codec, not supplied on this route
              ELSE IF r.ok /\ ~e.ok THEN "spec evaluates, code failed"
              ELSE IF ~r.ok /\ e.ok THEN "spec fails (" \o r.err \o "), code evaluated"
              ELSE IF r.ok /\ JsonOuts(r.v.outs) # e.outs THEN "outputs differ"
              ELSE IF "reads" \in DOMAIN e /\ \E i \in DOMAIN e.reads : ~Inside(e.root, e.reads[i])
                   THEN "content read outside the root"
              ELSE IF r.ok /\ "reads" \in DOMAIN e /\ {e.reads[i] : i \in DOMAIN e.reads} # r.v.reads
                   THEN "files read differ from the resolved layers"
              ELSE ""
     IN Verdict(j)

(* one run of the wrapper: observed = whether the wrapped program ran and    *)
(* its argument vector (untouched arguments byte for byte; substituted ones  *)
(* as the documents an independent decoder reads from the substituted file)  *)
TWrap ==
  /\ IsEvent("Wrap") /\ Advance /\ Keep /\ UNCHANGED shas
  /\ LET e == Ev
         w == WrapOp(FsOfEvent(e), e.cwd, e.args, EnvOf(e))
         j == IF w.undef THEN "undef"
              ELSE IF w.exec /\ ~e.exec THEN "the wrapped program was not run"
              ELSE IF ~w.exec /\ e.exec THEN "the wrapped program was run although a file argument failed to evaluate"
              ELSE IF ~w.exec THEN ""
              ELSE IF Len(e.argv) # Len(e.args) THEN "argument count changed"
              ELSE IF \E i \in DOMAIN e.args :
                        w.argv[i].kind = "same" /\ ~(e.argv[i].kind = "same" /\ e.argv[i].value = e.args[i])
                   THEN "an argument that is not a bkl file was changed"
              ELSE IF \E i \in DOMAIN e.args : w.argv[i].kind = "file" /\ e.argv[i].kind # "file"
                   THEN "a bkl file argument was not substituted"
              ELSE IF \E i \in DOMAIN e.args : w.argv[i].kind = "file" /\
                        ~(e.argv[i].decoded /\ e.argv[i].docs = w.argv[i].outs)
                   THEN "the substituted file does not hold the evaluated layers in the format of the named extension"
              ELSE IF \E i \in DOMAIN e.args : w.argv[i].kind = "file" /\ ~e.argv[i].nameKeepsExt
                   THEN "the substituted file name does not keep the argument's extension"
              ELSE ""
     IN Verdict(j)

(* bklr / bkld / bkli runs.  The tool's real output (decoded by an          *)
(* independent decoder) is judged by the specification: exactly for bklr,   *)
(* by contract for bkld and bkli.                                           *)
ChainOf(layers) == MergeChain(layers[1], Tail(layers))
JudgeBklr(e) ==
  LET m == ChainOf(e.layers) IN
  IF ~m.ok THEN (IF e.ok THEN "bklr accepted layers that do not merge" ELSE "")
  ELSE IF ~e.ok THEN "bklr failed on layers that merge"
  ELSE IF RequiredModel(m.v) # Skeleton(m.v) THEN "specification: transcribed algorithm differs from the declarative skeleton"
  ELSE IF e.out # Skeleton(m.v) THEN "bklr's output is not exactly the $required skeleton"
  ELSE IF ~IsNull(e.out) /\ ~OnlyMarkers(e.out) THEN "bklr's output contains something else than markers and their containers"
  ELSE IF e.second # e.out THEN "bklr on its own output changes it"
  ELSE IF e.plain /\ ((~IsNull(Skeleton(m.v))) # (~e.bkl.ok /\ e.bkl.required))
       THEN "bkl and bklr disagree on whether a required field is missing"
  ELSE ""
(* a target that carries directives (outside C15's quantifier, kept as an extension): bkld works on *)
(* the EVALUATED target, so base + layer must evaluate to what the specification's evaluator makes  *)
(* of the target                                                                                     *)
JudgeBkldDirective(e) ==
  LET t == EvalAll(<<[id |-> "t", data |-> e.target]>>, <<>>) IN
  IF ~t.ok THEN ""                      \* not a single evaluated target: no verdict
  ELSE IF ~e.ok THEN "bkld failed on a target that evaluates"
  ELSE IF ~e.applied.ok THEN "bkl rejects the emitted layer on top of the base"
  ELSE IF JsonOuts(e.applied.outs) # JsonOuts(t.v) THEN "bkl evaluates base + emitted layer to something else than the evaluated target"
  ELSE ""
JudgeBkld(e) ==
  IF "directive" \in DOMAIN e THEN JudgeBkldDirective(e)
  ELSE IF ~e.ok THEN "bkld failed"
  ELSE IF e.base = e.target /\ ~EmptyLayer(e.layer) THEN "base and target are equal but the emitted layer is not empty"
  ELSE IF ~ApplyLayer(e.base, e.layer).ok THEN "the emitted layer is not accepted on top of the base (specification)"
  ELSE IF ~DiffOK(e.base, e.target, e.layer) THEN "base + emitted layer does not evaluate to the target (specification)"
  ELSE IF ~e.applied.ok THEN "bkl rejects the emitted layer on top of the base"
  ELSE IF e.applied.outs # <<e.target>> THEN "bkl evaluates base + emitted layer to something else than the target"
  ELSE ""
JudgeBkli(e) ==
  IF ~e.ok THEN "bkli failed"
  ELSE IF \E i \in DOMAIN e.inputs : ~Common(e.out, e.inputs[i]) THEN "bkli's result contains a value that is not in every input"
  ELSE IF ~MarksDiffering(e.out, e.inputs) THEN "a field with differing values is not marked $required (or a shared value is missing)"
  ELSE IF ~Maximal(e.out, e.inputs) THEN "bkli dropped something all inputs share"
  ELSE IF \E i \in DOMAIN e.selfs : e.selfs[i] # e.inputs[i] THEN "intersecting a document with itself does not return it"
  ELSE IF \E i \in DOMAIN e.migrate : ~e.migrate[i].ok THEN "migration: bkld or bkl failed on the common base"
  ELSE IF \E i \in DOMAIN e.migrate : ~DiffOK(e.out, e.inputs[i], e.migrate[i].layer)
       THEN "migration: common base + bkld layer does not evaluate to the input (specification)"
  ELSE IF \E i \in DOMAIN e.migrate : e.migrate[i].outs # <<e.inputs[i]>> THEN "migration: bkl does not reproduce the input"
  ELSE IF "together" \in DOMAIN e /\ ~e.together.ok THEN "migration: bkl fails on the migrated layers evaluated in one run"
  ELSE IF "together" \in DOMAIN e /\ e.together.outs # e.inputs THEN "migration: the migrated layers evaluated in one run do not reproduce the inputs"
  ELSE ""
TTool ==
  /\ IsEvent("Tool") /\ Advance /\ Keep /\ UNCHANGED shas
  /\ Verdict(CASE Ev.tool = "bklr" -> JudgeBklr(Ev)
               [] Ev.tool = "bkld" -> JudgeBkld(Ev)
               [] Ev.tool = "bkli" -> JudgeBkli(Ev))

(* a format encoder's text, decoded by the independent decoder of that      *)
(* format, must be exactly the encoded value (C14, C05)                     *)
TCodec ==
  /\ IsEvent("Codec") /\ Advance /\ Keep /\ UNCHANGED shas
  /\ Verdict(IF ~Ev.decoded THEN "the independent decoder rejects the encoded text"
             ELSE IF Ev.docs # <<Ev.value>> THEN "the encoded text does not decode to the encoded value"
             ELSE IF "consistent" \in DOMAIN Ev /\ ~Ev.consistent THEN "the JSON encoders (json, json-pretty, jsonl) do not write the same tokens for the same value"
             ELSE "")

(* C05: an evaluated stream written in a format (library Output*, bkl -f,   *)
(* -o <file>, virtual input extension) and read back by bkl itself and by   *)
(* the independent parser of the format the selection rules demand          *)
TEmit ==
  /\ IsEvent("Emit") /\ Advance /\ Keep /\ UNCHANGED shas
  /\ LET e == Ev
         want == EvalAllC(e.docs, <<>>, <<>>)
         f == IF e.via = "library" THEN (IF e.format \in Exts THEN Ok(e.format) ELSE Err("unknownformat"))
              ELSE ChooseFormat(e.fflag, e.opath, e.inputs)
         cls == IF f.ok THEN FormatClass(f.v) ELSE "none"
         dec == IF cls = "json-pretty" THEN "json" ELSE cls
         j == IF ~want.ok THEN "undef"
              ELSE IF ~f.ok THEN (IF e.ok THEN "an invalid format selection was accepted" ELSE "")
              ELSE IF ~e.ok THEN "writing the output failed"
              ELSE IF ~e.bklok \/ e.bkl # want.v THEN "bkl does not read back the documents it wrote (" \o cls \o ")"
              ELSE IF ~e.indep[dec].ok THEN "the independent " \o dec \o " parser rejects what bkl wrote"
              ELSE IF e.indep[dec].docs # want.v THEN "the independent " \o dec \o " parser reads something else than what was written"
              ELSE IF dec = "json" /\ e.multiline /\ (cls = "json") THEN "compact JSON was requested, indented JSON was written"
              ELSE IF cls = "json-pretty" /\ ~e.multiline /\ e.hascontainer THEN "indented JSON was requested, compact JSON was written"
              ELSE IF dec \in {"yaml", "toml"} /\ e.indep["json"].ok /\ e.indep["json"].docs = want.v /\ e.hascontainer
                   THEN "JSON was written where " \o dec \o " was selected"
              ELSE ""
     IN Verdict(j)

(* the step log of one `bkl -v` run, validated action by action against the *)
(* small-step resolver: RBegin (layout, inputs), one RStep per log line      *)
(* ("[id] loading", "[id] merging"), REnd (exit status and outputs)          *)
TRBegin ==
  /\ IsEvent("RBegin") /\ Advance /\ Keep /\ UNCHANGED shas
  /\ rs' = Settle(RInit(FsOfEvent(Ev), RootAt(Ev.root), Ev.inputs, Ev.skip))
  /\ UNCHANGED <<bad, nchk, nundef>>
TRStep ==
  /\ IsEvent("RStep") /\ Advance /\ Keep /\ UNCHANGED shas
  /\ IF rs.status = "lost" THEN UNCHANGED <<rs, bad, nchk, nundef>>
     ELSE IF rs.status # "run" THEN
          /\ Verdict("the program reports a step after the specification's run is over (" \o rs.status \o ")")
          /\ rs' = [status |-> "lost"]
     ELSE IF NextLabel(rs) # [kind |-> Ev.kind, id |-> Ev.id] THEN
          /\ Verdict("step not enabled: the specification's next step is " \o NextLabel(rs).kind \o " " \o NextLabel(rs).id)
          /\ rs' = [status |-> "lost"]
     ELSE Verdict("") /\ rs' = Settle(Step(rs))
TREnd ==
  /\ IsEvent("REnd") /\ Advance /\ Keep /\ UNCHANGED shas
  /\ rs' = [status |-> "idle"]
  /\ IF rs.status = "lost" THEN UNCHANGED <<bad, nchk, nundef>>
     ELSE IF rs.status = "run" THEN Verdict("the program stopped while the specification still has steps to take (next: " \o NextLabel(rs).kind \o " " \o NextLabel(rs).id \o ")")
     ELSE LET r == IF rs.status = "done" THEN EvalAll(rs.docs, <<>>) ELSE Err("resolve") IN
          Verdict(IF ~r.ok /\ r.err \in {"undef", "need"} THEN "undef"
                  ELSE IF r.ok /\ ~Ev.ok THEN "spec evaluates, code failed"
                  ELSE IF ~r.ok /\ Ev.ok THEN "spec fails (" \o r.err \o "), code evaluated"
                  ELSE IF r.ok /\ JsonOuts(r.v) # Ev.outs THEN "outputs differ"
                  ELSE "")

(* one process: the termination protocol of every tool (C08) *)
TProc ==
  /\ IsEvent("Proc") /\ Advance /\ Keep /\ UNCHANGED shas
  /\ Verdict(IF ProtocolOK(Ev) THEN ""
             ELSE IF Ev.timedOut THEN "the tool did not terminate"
             ELSE IF Ev.signaled \/ Ev.panicked THEN "the tool crashed"
             ELSE IF Ev.exit # 0 /\ ~Ev.stdoutEmpty THEN "output on stdout although the tool failed"
             ELSE "failure without a diagnostic on stderr")

(* C09: a later run of the same input (same files, flags, environment) must *)
(* have the same success status and byte-identical output as the first one  *)
TRepeat ==
  /\ IsEvent("Repeat") /\ Advance /\ Keep /\ UNCHANGED shas
  /\ LET e == Ev IN
     IF e.key \notin DOMAIN firsts
     THEN /\ firsts' = [x \in (DOMAIN firsts) \cup {e.key} |-> IF x = e.key THEN <<e.ok, e.sha>> ELSE firsts[x]]
          /\ Verdict("")
     ELSE /\ UNCHANGED firsts
          /\ Verdict(IF firsts[e.key] = <<e.ok, e.sha>> THEN ""
                     ELSE IF firsts[e.key][1] # e.ok THEN "success status differs between runs of the same input (" \o e.mode \o ")"
                     ELSE "output bytes differ between runs of the same input (" \o e.mode \o ")")

TDone ==
  /\ l = Len(Trace) + 1
  /\ JsonSerialize("result.json",
        [l |-> l + 1, nchk |-> nchk, undef |-> nundef,
         needs |-> LET q == SetToSeq(needs) IN [i \in DOMAIN q |-> [line |-> q[i][1], name |-> q[i][2], arg |-> q[i][3]]],
         bad |-> LET q == SetToSeq(bad) IN [i \in DOMAIN q |-> [line |-> q[i][1], why |-> q[i][2]]]])
  /\ l' = l + 1
  /\ UNCHANGED <<docs, par, live, bad, nchk, nundef, shas, firsts, needs, rs>>

TNext == TReset \/ TSkip \/ TMergeDocument \/ TDocuments \/ TOutput \/ TEval \/ TRun \/ TProc \/ TRepeat \/ TWrap \/ TTool \/ TCodec \/ TEmit \/ TRBegin \/ TRStep \/ TREnd \/ TDone
TSpec == TInit /\ [][TNext]_vars

(* every line is consumed by exactly one action *)
Progress == l <= Len(Trace) + 2
=============================================================================
