----------------------------- MODULE BklMerge -----------------------------
(***************************************************************************)
(* Layering rules: match.go and merge.go, one operator per Go function,    *)
(* same case order, value semantics (no aliasing, no in-place mutation).   *)
(***************************************************************************)
EXTENDS BklValue

---------------------------------------------------------------------------
(* match.go *)
RECURSIVE Match(_, _), MatchMap(_, _)

PlaceholderOnly(obj) ==
  Size(obj) = 1 /\ Keys(obj) \subseteq {"$merge", "$replace", "$encode"}

MatchMap(obj, pat) ==
  IF Has(pat, "$invert") /\ At(pat, "$invert") = True
  THEN ~MatchMap(obj, Del(pat, "$invert"))
  ELSE /\ IsMap(obj)
       /\ ~PlaceholderOnly(obj)
       /\ \A pk \in Keys(pat) :
             Match(IF Has(obj, pk) THEN At(obj, pk) ELSE Null, At(pat, pk))

Match(obj, pat) ==
  IF IsMap(pat) THEN MatchMap(obj, pat)
  ELSE IF IsList(pat) THEN
       /\ IsList(obj)
       /\ \A i \in DOMAIN Elems(pat) :
             \E j \in DOMAIN Elems(obj) : Match(Elems(obj)[j], Elems(pat)[i])
  ELSE obj = pat

---------------------------------------------------------------------------
(* util.go list helpers *)

(* popListString: (found, list without the string entries equal to v) *)
HasListString(q, v) == \E i \in DOMAIN q : q[i] = S(v)
DropListString(q, v) == SeqFilter(q, LAMBDA e : e # S(v))

(* hasListMapBoolValue / popListMapBoolValue *)
IsMapWithBool(e, k, b) == IsMap(e) /\ Has(e, k) /\ At(e, k) = b
HasListMapBool(q, k, b) == \E i \in DOMAIN q : IsMapWithBool(q[i], k, b)
PopListMapBool(q, k, b) ==   \* precondition: HasListMapBool
  IF \E i \in DOMAIN q : IsMapWithBool(q[i], k, b) /\ Size(q[i]) > 1
  THEN Err("extrakeys")
  ELSE Ok(SeqFilter(q, LAMBDA e : ~IsMapWithBool(e, k, b)))

(* popListMapValue(l, k): single-key map entries {k: val} are removed and  *)
(* val returned; two of them (with non-null first value) is an error; a    *)
(* null value is indistinguishable from "absent" in the Go code            *)
IsSingle(e, k) == IsMap(e) /\ Size(e) = 1 /\ Has(e, k)
RECURSIVE PopListMapValueFrom(_, _, _, _, _)
PopListMapValueFrom(q, k, i, ret, acc) ==
  IF i > Len(q) THEN [ok |-> TRUE, val |-> ret, rest |-> acc]
  ELSE IF IsSingle(q[i], k) THEN
       IF ~IsNull(ret) THEN [ok |-> FALSE, err |-> "extrakeys"]
       ELSE PopListMapValueFrom(q, k, i + 1, At(q[i], k), acc)
  ELSE PopListMapValueFrom(q, k, i + 1, ret, Append(acc, q[i]))
PopListMapValue(q, k) == PopListMapValueFrom(q, k, 1, Null, <<>>)

---------------------------------------------------------------------------
(* merge.go *)
RECURSIVE Merge(_, _), MergeMapMap(_, _), MergeListList(_, _),
          MergeMapKeys(_, _, _), MergeListEntries(_, _), ListMatch(_, _, _)

MergeMap(dst, src) ==
  IF IsMap(src) THEN MergeMapMap(dst, src)
  ELSE IF IsNull(src) THEN Ok(dst)
  ELSE IF Size(dst) = 0 THEN Ok(src)
  ELSE Err("invalidtype")

MergeList(dst, src) ==
  IF IsList(src) THEN MergeListList(dst, src)
  ELSE IF IsNull(src) THEN Ok(dst)
  ELSE Err("invalidtype")

Merge(dst, src) ==
  IF IsMap(dst) THEN MergeMap(dst, src)
  ELSE IF IsList(dst) THEN MergeList(dst, src)
  ELSE IF IsNull(dst) THEN Ok(src)
  ELSE IF src = dst THEN Err("useless")
  ELSE Ok(src)

(* one key of the child map applied to the accumulated parent map *)
MergeMapKey(dst, src, k) ==
  LET v == At(src, k) IN
  IF ToStr(v) = "$delete" THEN
     IF Has(dst, k) THEN Ok(Del(dst, k)) ELSE Err("useless")
  ELSE IF Has(dst, k) THEN
     LET r == Merge(At(dst, k), v) IN
     IF r.ok THEN Ok(Put(dst, k, r.v)) ELSE r
  ELSE Ok(Put(dst, k, v))

MergeMapKeys(dst, src, ks) ==
  IF Len(ks) = 0 THEN Ok(dst)
  ELSE LET r == MergeMapKey(dst, src, ks[1]) IN
       IF ~r.ok THEN r ELSE MergeMapKeys(r.v, src, Tail(ks))

MergeMapMap(dst, src) ==
  IF Has(src, "$replace") /\ At(src, "$replace") = True
  THEN Ok(Del(src, "$replace"))
  ELSE MergeMapKeys(dst, src, SortedKeys(src))

ListDelete(q, del) ==
  IF \E i \in DOMAIN q : Match(q[i], del)
  THEN Ok(SeqFilter(q, LAMBDA e : ~Match(e, del)))
  ELSE Err("useless")

(* mergeListMatch: q list payload, m pattern, v the entry minus $match *)
ListMatch(q, m, v) ==
  LET hasVal == Has(v, "$value")
      val    == IF hasVal THEN At(v, "$value") ELSE v
  IN
  IF hasVal /\ Size(v) > 1 THEN Err("extrakeys")
  ELSE
    LET r == FlatMapRes(LAMBDA e :
                 IF Match(e, m)
                 THEN LET x == Merge(e, val) IN IF x.ok THEN Ok(<<x.v>>) ELSE x
                 ELSE Ok(<<e>>), q)
    IN IF ~r.ok THEN r
       ELSE IF \E i \in DOMAIN q : Match(q[i], m) THEN r
       ELSE Err("nomatch")

(* the left fold over the child's entries; dst, src are list payloads *)
MergeListEntries(dst, src) ==
  IF Len(src) = 0 THEN Ok(dst)
  ELSE
    LET v == src[1] IN
    IF ~IsMap(v) THEN MergeListEntries(Append(dst, v), Tail(src))
    ELSE IF Has(v, "$delete") THEN
         IF Size(v) > 1 THEN Err("extrakeys")
         ELSE LET r == ListDelete(dst, At(v, "$delete")) IN
              IF ~r.ok THEN r ELSE MergeListEntries(r.v, Tail(src))
    ELSE IF Has(v, "$match") THEN
         LET r == ListMatch(dst, At(v, "$match"), Del(v, "$match")) IN
         IF ~r.ok THEN r ELSE MergeListEntries(r.v, Tail(src))
    ELSE MergeListEntries(Append(dst, v), Tail(src))

MergeListList(dst, src) ==
  LET sq == Elems(src)  dq == Elems(dst) IN
  IF HasListString(sq, "$replace") THEN Ok(L(DropListString(sq, "$replace")))
  ELSE IF HasListMapBool(sq, "$replace", True) THEN
       LET r == PopListMapBool(sq, "$replace", True) IN
       IF r.ok THEN Ok(L(r.v)) ELSE r
  ELSE LET r == MergeListEntries(DropListString(dq, "$required"), sq) IN
       IF r.ok THEN Ok(L(r.v)) ELSE r

(* a chain of layers applied base first *)
RECURSIVE MergeChain(_, _)
MergeChain(base, layers) ==
  IF Len(layers) = 0 THEN Ok(base)
  ELSE LET r == Merge(base, layers[1]) IN
       IF ~r.ok THEN r ELSE MergeChain(r.v, Tail(layers))
=============================================================================
