----------------------------- MODULE BklProps -----------------------------
(***************************************************************************)
(* The listed properties, stated declaratively and independently of the    *)
(* operational operators they constrain.  The bounded models evaluate      *)
(* them on every explored transition; a failure there is an inconsistency  *)
(* inside the specification (reported as a machinery error until it is     *)
(* reproduced on the real code, DESIGN.md section 5).                      *)
(***************************************************************************)
EXTENDS BklEval

---------------------------------------------------------------------------
(* C01: the documented layering rules, by position.                        *)
(*                                                                         *)
(* Rejects(d, s): some position of the child overrides uselessly or        *)
(* inapplicably.  DocResult(d, s): the documented result when accepted.    *)
(* Maps are described key-wise (a set comprehension, no iteration order);  *)
(* list children are inherently a left fold: an entry is judged against    *)
(* the parent list as edited by the preceding entries of the same child.   *)

RECURSIVE Rejects(_, _), DocResult(_, _), ListRejects(_, _), ListResult(_, _)

IsDelMark(v)     == v = S("$delete")
ReplacesMap(s)   == IsMap(s) /\ Has(s, "$replace") /\ At(s, "$replace") = True
ReplacesList(q)  == (\E i \in DOMAIN q : q[i] = S("$replace"))
                    \/ (\E i \in DOMAIN q : IsMap(q[i]) /\ Has(q[i], "$replace") /\ At(q[i], "$replace") = True)
StripReplace(q)  == IF \E i \in DOMAIN q : q[i] = S("$replace")
                    THEN SeqFilter(q, LAMBDA e : e # S("$replace"))
                    ELSE SeqFilter(q, LAMBDA e : ~(IsMap(e) /\ Has(e, "$replace") /\ At(e, "$replace") = True))
(* a {$replace: true} marker entry with further keys (only looked at when  *)
(* no "$replace" string entry decides first)                               *)
BadReplaceMarker(q) ==
  /\ ~(\E i \in DOMAIN q : q[i] = S("$replace"))
  /\ \E i \in DOMAIN q : IsMap(q[i]) /\ Has(q[i], "$replace") /\ At(q[i], "$replace") = True /\ Size(q[i]) > 1

Rejects(d, s) ==
  IF IsMap(d) THEN
     IF IsMap(s) THEN
        IF ReplacesMap(s) THEN FALSE
        ELSE \E k \in Keys(s) :
               \/ IsDelMark(At(s, k)) /\ ~Has(d, k)
               \/ ~IsDelMark(At(s, k)) /\ Has(d, k) /\ Rejects(At(d, k), At(s, k))
     ELSE IF IsNull(s) THEN FALSE
     ELSE Size(d) > 0                      \* scalar or list over a non-empty map
  ELSE IF IsList(d) THEN
     IF IsList(s) THEN
        IF ReplacesList(Elems(s)) THEN BadReplaceMarker(Elems(s))
        ELSE ListRejects(SeqFilter(Elems(d), LAMBDA e : e # S("$required")), Elems(s))
     ELSE IF IsNull(s) THEN FALSE
     ELSE TRUE                             \* scalar or map over a list
  ELSE IF IsNull(d) THEN FALSE
  ELSE s = d                               \* the same scalar value

DocResult(d, s) ==
  IF IsMap(d) THEN
     IF IsMap(s) THEN
        IF ReplacesMap(s) THEN Del(s, "$replace")
        ELSE LET gone == {k \in Keys(s) : IsDelMark(At(s, k))}
                 ks   == (Keys(d) \cup Keys(s)) \ gone
             IN M([k \in ks |->
                    IF Has(d, k) /\ Has(s, k) THEN DocResult(At(d, k), At(s, k))
                    ELSE IF Has(d, k) THEN At(d, k)      \* not mentioned: preserved
                    ELSE At(s, k)])                       \* new: taken as written
     ELSE IF IsNull(s) THEN d
     ELSE s
  ELSE IF IsList(d) THEN
     IF IsList(s) THEN
        IF ReplacesList(Elems(s)) THEN L(StripReplace(Elems(s)))
        ELSE L(ListResult(SeqFilter(Elems(d), LAMBDA e : e # S("$required")), Elems(s)))
     ELSE d
  ELSE s

(* one child entry applied to the (already edited) parent list *)
EntryKind(e) ==
  IF ~IsMap(e) THEN "append"
  ELSE IF Has(e, "$delete") THEN "delete"
  ELSE IF Has(e, "$match") THEN "match"
  ELSE "append"
MatchVal(e) == LET rest == Del(e, "$match") IN
               IF Has(rest, "$value") THEN At(rest, "$value") ELSE rest
EntryRejects(q, e) ==
  CASE EntryKind(e) = "append" -> FALSE
    [] EntryKind(e) = "delete" ->
         \/ Size(e) > 1
         \/ ~\E i \in DOMAIN q : Match(q[i], At(e, "$delete"))
    [] EntryKind(e) = "match" ->
         \/ Has(e, "$value") /\ Size(e) > 2
         \/ ~\E i \in DOMAIN q : Match(q[i], At(e, "$match"))
         \/ \E i \in DOMAIN q : Match(q[i], At(e, "$match")) /\ Rejects(q[i], MatchVal(e))
EntryResult(q, e) ==
  CASE EntryKind(e) = "append" -> Append(q, e)
    [] EntryKind(e) = "delete" -> SeqFilter(q, LAMBDA x : ~Match(x, At(e, "$delete")))
    [] EntryKind(e) = "match" ->
         [i \in DOMAIN q |-> IF Match(q[i], At(e, "$match")) THEN DocResult(q[i], MatchVal(e)) ELSE q[i]]

ListRejects(q, es) ==
  IF Len(es) = 0 THEN FALSE
  ELSE EntryRejects(q, es[1]) \/ ListRejects(EntryResult(q, es[1]), Tail(es))
ListResult(q, es) ==
  IF Len(es) = 0 THEN q ELSE ListResult(EntryResult(q, es[1]), Tail(es))

(* the theorem the bounded models check on every explored pair *)
MergeIsDocumented(d, s) ==
  LET r == Merge(d, s) IN
  /\ r.ok = ~Rejects(d, s)
  /\ r.ok => r.v = DocResult(d, s)

(* named consequences, checked separately so that coverage can count them *)
IsDirectiveFree(t) ==
  AllStrings(t, LAMBDA x : ~HasPrefix(x, "$"))

Preserved(d, s) ==      \* everything the child does not mention is preserved unchanged
  (IsMap(d) /\ IsMap(s) /\ ~ReplacesMap(s) /\ Merge(d, s).ok) =>
     \A k \in Keys(d) \ Keys(s) : Has(Merge(d, s).v, k) /\ At(Merge(d, s).v, k) = At(d, k)
Concat(d, s) ==         \* directive-free lists concatenate parent-then-child
  (IsList(d) /\ IsList(s) /\ IsDirectiveFree(d) /\ IsDirectiveFree(s)) =>
     Merge(d, s) = Ok(L(Elems(d) \o Elems(s)))
ScalarWins(d, s) ==     \* a child scalar replaces the parent's scalar
  (IsScalar(d) /\ ~IsNull(d) /\ IsScalar(s) /\ s # d) => Merge(d, s) = Ok(s)
DeleteRemoves(d, s) ==
  (IsMap(d) /\ IsMap(s) /\ ~ReplacesMap(s) /\ Merge(d, s).ok) =>
     \A k \in Keys(s) : IsDelMark(At(s, k)) => ~Has(Merge(d, s).v, k)
ReplaceIsChild(d, s) ==
  (IsMap(d) /\ ReplacesMap(s)) => Merge(d, s) = Ok(Del(s, "$replace"))

C01Props(d, s) ==
  /\ MergeIsDocumented(d, s)
  /\ Preserved(d, s) /\ Concat(d, s) /\ ScalarWins(d, s) /\ DeleteRemoves(d, s) /\ ReplaceIsChild(d, s)
---------------------------------------------------------------------------
(* C07: no unresolved marker reaches the output *)
Marker(x) == x = "$required" \/ DirectiveShaped(x)
NoMarker(t) == AllStrings(t, LAMBDA x : ~Marker(x))


---------------------------------------------------------------------------
(* C11: $output selects exactly the marked subtrees, hides the excluded    *)
(* the declarative statement: the selected subtrees, stripped and hidden *)
RECURSIVE Strip(_), Hide(_), Marked(_)
Strip(t) ==   \* remove every $output: true marker
  IF IsMap(t) THEN LET o == IF Has(t, "$output") /\ At(t, "$output") = True THEN Del(t, "$output") ELSE t IN
                   M([k \in Keys(o) |-> Strip(At(o, k))])
  ELSE IF IsList(t) THEN LET q == SeqFilter(Elems(t), LAMBDA e : ~(IsMap(e) /\ e = Single("$output", True))) IN
                         L([i \in DOMAIN q |-> Strip(q[i])])
  ELSE t
Hide(t) ==    \* remove everything under $output: false; Null when nothing is left
  IF IsMap(t) THEN
     IF Has(t, "$output") /\ At(t, "$output") = False THEN Null
     ELSE LET ks == {k \in Keys(t) : ~IsNull(Hide(At(t, k)))} IN M([k \in ks |-> Hide(At(t, k))])
  ELSE IF IsList(t) THEN
     IF \E i \in DOMAIN Elems(t) : Elems(t)[i] = Single("$output", False) THEN Null
     ELSE LET q == SeqFilter(Elems(t), LAMBDA e : ~IsNull(Hide(e))) IN L([i \in DOMAIN q |-> Hide(q[i])])
  ELSE t
Marked(t) ==  \* the bag of marked subtrees, as a sequence in some order
  IF IsMap(t) THEN
     LET ks   == SortedKeys(t)
         kids == FoldRes(LAMBDA acc, k : Ok(acc \o Marked(At(t, k))), <<>>, ks).v
     IN (IF Has(t, "$output") /\ At(t, "$output") = True THEN <<t>> ELSE <<>>) \o kids
  ELSE IF IsList(t) THEN
     LET real == SeqFilter(Elems(t), LAMBDA e : e \notin {Single("$output", True), Single("$output", False)})
         kids == FoldRes(LAMBDA acc, e : Ok(acc \o Marked(e)), <<>>, real).v
     IN kids \o (IF \E i \in DOMAIN Elems(t) : Elems(t)[i] = Single("$output", True) THEN <<t>> ELSE <<>>)
  ELSE <<>>
Expected11(d) ==
  LET sel  == IF Len(Marked(d)) = 0 THEN <<d>> ELSE Marked(d)
      outs == [i \in DOMAIN sel |-> Hide(Strip(sel[i]))]
  IN SeqFilter(outs, LAMBDA o : ~IsNull(o))
SameBag(p, q) == Len(p) = Len(q) /\ \A x \in SeqToSet(p) \cup SeqToSet(q) :
                   Cardinality({i \in DOMAIN p : p[i] = x}) = Cardinality({i \in DOMAIN q : q[i] = x})
=============================================================================
