----------------------------- MODULE MC_Files -----------------------------
(***************************************************************************)
(* Bounded model of layer resolution (C03) and root confinement (C18).     *)
(* A case is a directory layout (files with their parsed documents,        *)
(* symbolic links), the command-line inputs, the -P flag and the root.     *)
(* Every layer file carries `order: [<its name>]`, so the `order` list of  *)
(* each output document is the sequence of layers applied to it.  TLC      *)
(* evaluates RunLayers on every layout, asserts the declarative laws       *)
(*   BaseFirst        the order lists are exactly the expected chains      *)
(*   ParentEqFilename a chain written with $parent resolves like the       *)
(*                    filename chain (modulo names)                        *)
(*   RenameInvariant  renaming a chain changes nothing but the names       *)
(*   MissingIsError   a missing layer is an error                          *)
(*   SkipParents      -P applies exactly the inputs, left to right         *)
(*   Confined         every content read lies inside the root, escapes fail*)
(* and prints the layout with the verdict; the harness materialises each   *)
(* layout in a fresh directory and runs the real `bkl` binary on it.       *)
(***************************************************************************)
EXTENDS BklResolver, Json, SequencesExt

CONSTANTS Family, Shard, NShards

VARIABLES c, phase, rs, labels
vars == <<c, phase, rs, labels>>

AsciiOrder == <<" ","!","\"","#","$","%","&","'","(",")","*","+",",","-",".","/",
  "0","1","2","3","4","5","6","7","8","9",":",";","<","=",">","?","@",
  "A","B","C","D","E","F","G","H","I","J","K","L","M","N","O","P","Q","R","S","T","U","V","W","X","Y","Z",
  "[","\\","]","^","_","`",
  "a","b","c","d","e","f","g","h","i","j","k","l","m","n","o","p","q","r","s","t","u","v","w","x","y","z",
  "{","|","}","~">>
AsciiLower == {"a","b","c","d","e","f","g","h","i","j","k","l","m","n","o","p","q","r","s","t","u","v","w","x","y","z"}

W == "/w"
ExtSeq == <<"yaml", "json", "toml", "yml", "jsonl">>
ExtAt(i, rot) == ExtSeq[((i + rot) % 5) + 1]

(* the document of layer `name`: its own order entry, plus extra keys *)
LayerDoc(name, extra) ==
  M([k \in {"order"} \cup DOMAIN extra |-> IF k = "order" THEN L(<<S(name)>>) ELSE extra[k]])
File(docs) == [kind |-> "file", docs |-> docs]
Link(t) == [kind |-> "symlink", target |-> t]

(* a layout from a sequence of [name, ext, docs] plus links [name, ext, target] *)
FsOf(files, links) ==
  LET fp(i) == W \o "/" \o files[i][1] \o "." \o files[i][2]
      lp(i) == W \o "/" \o links[i][1] \o "." \o links[i][2]
  IN [p \in {fp(i) : i \in DOMAIN files} \cup {lp(i) : i \in DOMAIN links} |->
        IF \E i \in DOMAIN files : fp(i) = p
        THEN File(files[CHOOSE i \in DOMAIN files : fp(i) = p][3])
        ELSE Link(links[CHOOSE i \in DOMAIN links : lp(i) = p][3])]

Plain(name, rot, i) == <<name, ExtAt(i, rot), <<LayerDoc(name, <<>>)>> >>
WithParent(name, rot, i, pv) == <<name, ExtAt(i, rot), <<LayerDoc(name, [pk \in {"$parent"} |-> pv])>> >>

Case(fs, inputs, skip, root, tagv, expect) ==
  [fs |-> fs, inputs |-> inputs, skip |-> skip, root |-> root, tag |-> tagv, expect |-> expect]
(* expect: <<"chains", seq of seq of names>> or <<"error">> *)
Chains(q) == <<"chains", q>>
Fails == <<"error">>

PrefixNames(parts) == [i \in 1..Len(parts) |-> JoinStr(SubSeq(parts, 1, i), ".")]

Names == { <<"a">>, <<"a", "b">>, <<"a", "b", "c">>, <<"a", "b", "c", "d">>, <<"svc", "prod">>, <<"x1", "y-2", "z_3">>,
           (* a name segment that is itself a format name: "svc.json" is a LAYER here, next to the file svc.json *)
           <<"svc", "json", "prod">>, <<"app", "yaml">> }
Rots == 0..4

CasesC03(lazy) ==
  (* filename chains under every rotation of the extensions *)
  { LET ch == PrefixNames(n) IN
    Case(FsOf([i \in DOMAIN ch |-> Plain(ch[i], rot, i)], <<>>), <<ch[Len(ch)] \o "." \o ExtAt(Len(ch), rot)>>,
         FALSE, "/", "filename", Chains(<<ch>>)) : n \in Names, rot \in Rots }
  (* the input named through a virtual extension *)
  \cup { LET ch == PrefixNames(n) IN
    Case(FsOf([i \in DOMAIN ch |-> Plain(ch[i], rot, i)], <<>>), <<ch[Len(ch)] \o "." \o ExtAt(Len(ch) + 1, rot)>>,
         FALSE, "/", "virtual", Chains(<<ch>>)) : n \in Names, rot \in Rots }
  (* one layer of the chain missing *)
  \cup { LET ch == PrefixNames(n)
             gidx == ((gone - 1) % Len(ch)) + 1
             keep == SeqFilter([i \in DOMAIN ch |-> i], LAMBDA i : i # gidx)
         IN Case(FsOf([j \in DOMAIN keep |-> Plain(ch[keep[j]], rot, keep[j])], <<>>),
                 <<ch[Len(ch)] \o "." \o ExtAt(Len(ch), rot)>>, FALSE, "/", "missing", Fails)
         : n \in {x \in Names : Len(x) > 1}, rot \in {0, 3}, gone \in 1..4, ok \in {TRUE} } 
  (* the same chains written with $parent on unrelated names *)
  \cup { LET ch == PrefixNames(n)
             nm(i) == "p" \o NatStr(i) \o (IF i % 2 = 0 THEN ".extra" ELSE "")
         IN Case(FsOf([i \in DOMAIN ch |->
                         IF i = 1 THEN <<nm(1), ExtAt(1, rot), <<LayerDoc(ch[1], [pk \in {"$parent"} |-> False])>> >>
                         ELSE <<nm(i), ExtAt(i, rot), <<LayerDoc(ch[i], [pk \in {"$parent"} |-> S(nm(i - 1))])>> >>], <<>>),
                 <<nm(Len(ch)) \o "." \o ExtAt(Len(ch), rot)>>, FALSE, "/", "parentchain", Chains(<<ch>>))
         : n \in Names, rot \in {0, 2} }
  (* $parent forms on a.b: string, list, wildcard, false, null, missing, true, conflicting, other types *)
  \cup { Case(FsOf(<<Plain("a", rot, 1), Plain("c", rot, 2), Plain("c.d", rot, 3), Plain("c.e", rot, 4), Plain("c.d.f", rot, 5),
                     WithParent("a.b", rot, 6, pv[1])>>, <<>>),
              <<"a.b." \o ExtAt(6, rot)>>, FALSE, "/", "parentform", pv[2])
         : rot \in {0, 1},
           pv \in { <<S("c"), Chains(<< <<"c", "a.b">> >>)>>,
                    <<S("c.d"), Chains(<< <<"c", "c.d", "a.b">> >>)>>,
                    <<L(<<S("a"), S("c")>>), Chains(<< <<"a", "a.b">>, <<"c", "a.b">> >>)>>,
                    <<L(<<S("c.d"), S("c.e")>>), Chains(<< <<"c", "c.d", "a.b">>, <<"c", "c.e", "a.b">> >>)>>,
                    <<S("c.*"), Chains(<< <<"c", "c.d", "a.b">>, <<"c", "c.e", "a.b">> >>)>>,
                    <<S("*"), Chains(<< <<"a", "a.b">>, <<"c", "a.b">> >>)>>,
                    <<S("c.d.*"), Chains(<< <<"c", "c.d", "c.d.f", "a.b">> >>)>>,
                    <<False, Chains(<< <<"a.b">> >>)>>,
                    <<Null, Chains(<< <<"a.b">> >>)>>,
                    <<S("nope"), Fails>>, <<S("z.*"), Fails>>, <<True, Fails>>,
                    <<L(<<S("c"), I("1")>>), Fails>>,
                    <<L(<<S("c"), S("nope")>>), Fails>>, <<L(<<S("nope"), S("c")>>), Fails>>,
                    <<L(<<S("c"), S("z.*")>>), Fails>>, <<L(<<S("c.*"), S("nope")>>), Fails>>,
                    <<I("7"), Chains(<< <<"a", "a.b">> >>)>>,
                    <<EmptyList, Chains(<< <<"a", "a.b">> >>)>> } }
  (* files with unsupported extensions next to the layers: never a parent, never a match of a wildcard *)
  \cup { Case(FsOf(<<Plain("a", rot, 1), Plain("c", rot, 2), Plain("c.d", rot, 3), WithParent("a.b", rot, 6, pv[1])>>, <<>>)
              @@ ((W \o "/c.txt") :> [kind |-> "other"]) @@ ((W \o "/c.e.ini") :> [kind |-> "other"]) @@ ((W \o "/a.md") :> [kind |-> "other"])
              @@ ((W \o "/zz.txt") :> [kind |-> "other"]),
              <<"a.b." \o ExtAt(6, rot)>>, FALSE, "/", "otherfiles", pv[2])
         : rot \in {0, 1},
           pv \in { <<S("c"), Chains(<< <<"c", "a.b">> >>)>>,
                    <<S("c.*"), Chains(<< <<"c", "c.d", "a.b">> >>)>>,
                    <<S("*"), Chains(<< <<"a", "a.b">>, <<"c", "a.b">> >>)>>,
                    <<S("zz"), Fails>>, <<S("c.e"), Fails>>,
                    <<EmptyList, Chains(<< <<"a", "a.b">> >>)>> } }
  (* the filename rule with only an unsupported file where the parent should be *)
  \cup { Case(FsOf(<<Plain("q.r", 0, 1)>>, <<>>) @@ ((W \o "/q.txt") :> [kind |-> "other"]),
              <<"q.r.yaml">>, FALSE, "/", "otherfiles", Fails) : dummy \in {1} }
  (* $parent in the second document of a two-document file; conflicting directives *)
  \cup { Case(FsOf(<<Plain("a", 0, 1), Plain("c", 0, 2),
                     <<"a.b", "yaml", <<LayerDoc("a.b", <<>>), LayerDoc("a.b#2", [pk \in {"$parent"} |-> pv[1]])>> >> >>, <<>>),
              <<"a.b.yaml">>, FALSE, "/", "seconddoc", pv[2])
         : pv \in { <<S("c"), Chains(<< <<"c", "a.b", "a.b#2">> >>)>>, <<False, Chains(<< <<"a.b">>, <<"a.b#2">> >>)>>,
                    <<S("nope"), Fails>> } }
  (* $parent in both documents of a file, one of them missing *)
  \cup { Case(FsOf(<<Plain("a", 0, 1), Plain("c", 0, 2),
                     <<"a.b", "yaml", <<LayerDoc("a.b", [pk \in {"$parent"} |-> S(pv[1])]), LayerDoc("a.b#2", [pk \in {"$parent"} |-> S(pv[2])])>> >> >>, <<>>),
              <<"a.b.yaml">>, FALSE, "/", "twodirectives", pv[3])
         : pv \in { <<"c", "nope", Fails>>, <<"nope", "c", Fails>>, <<"c", "a", Chains(<< <<"c", "a.b", "a.b#2">>, <<"a", "a.b", "a.b#2">> >>)>> } }
  \cup { Case(FsOf(<<Plain("a", 0, 1), Plain("c", 0, 2),
                     <<"a.b", "yaml", <<LayerDoc("a.b", [pk \in {"$parent"} |-> False]), LayerDoc("a.b#2", [pk \in {"$parent"} |-> S("c")])>> >> >>, <<>>),
              <<"a.b.yaml">>, FALSE, "/", "conflict", Fails) : dummy \in {1} }
  (* null is "no parent", like false: next to a named parent in the same file it is a conflict, in either order *)
  \cup { Case(FsOf(<<Plain("a", 0, 1), Plain("c", 0, 2),
                     <<"a.b", "yaml", <<LayerDoc("a.b", [pk \in {"$parent"} |-> pv[1]]), LayerDoc("a.b#2", [pk \in {"$parent"} |-> pv[2]])>> >> >>, <<>>),
              <<"a.b.yaml">>, FALSE, "/", "conflict", Fails)
         : pv \in { <<S("c"), Null>>, <<Null, S("c")>>, <<S("c"), False>>, <<L(<<S("c")>>), Null>> } }
  (* a symlink inherits from its target's name; a directive in the content still wins *)
  \cup { Case(FsOf(<<Plain("a", rot, 1), Plain("a.b", rot, 2), Plain("k", rot, 3)>>,
                   << <<"k.link", ExtAt(2, rot), "a.b." \o ExtAt(2, rot)>> >>),
              <<"k.link." \o ExtAt(2, rot)>>, FALSE, "/", "symlink", Chains(<< <<"a", "a.b">> >>)) : rot \in Rots }
  \cup { Case(FsOf(<<Plain("a", 0, 1), Plain("k", 0, 2), WithParent("a.b", 0, 3, S("k"))>>,
                   << <<"z.link", "yaml", "a.b." \o ExtAt(3, 0)>> >>),
              <<"z.link.yaml">>, FALSE, "/", "symlinkdirective", Chains(<< <<"k", "a.b">> >>)) : dummy \in {1} }
  (* a link to a link: the layer inherits from the name of the FINAL target, whatever the hops are called *)
  \cup { Case(FsOf(<<Plain("a", rot, 1), Plain("a.b", rot, 2), Plain("cur", rot, 3)>>,
                   << <<"hop", ExtAt(2, rot), "a.b." \o ExtAt(2, rot)>>, <<"c", ExtAt(2, rot), "hop." \o ExtAt(2, rot)>> >>),
              <<"c." \o ExtAt(2, rot)>>, FALSE, "/", "symlink2", Chains(<< <<"a", "a.b">> >>)) : rot \in {0, 1, 2} }
  (* ... also when the two-hop link is an intermediate layer found by the filename rule, or named by $parent *)
  \cup { Case(FsOf(<<Plain("a", 0, 1), Plain("a.b", 0, 2), Plain("c.d", 0, 3)>>,
                   << <<"hop", ExtAt(2, 0), "a.b." \o ExtAt(2, 0)>>, <<"c", ExtAt(2, 0), "hop." \o ExtAt(2, 0)>> >>),
              <<"c.d." \o ExtAt(3, 0)>>, FALSE, "/", "symlink2", Chains(<< <<"a", "a.b", "c.d">> >>)) : dummy \in {1} }
  \cup { Case(FsOf(<<Plain("a", 0, 1), Plain("a.b", 0, 2), WithParent("top", 0, 3, S("c"))>>,
                   << <<"hop", ExtAt(2, 0), "a.b." \o ExtAt(2, 0)>>, <<"c", ExtAt(2, 0), "hop." \o ExtAt(2, 0)>> >>),
              <<"top." \o ExtAt(3, 0)>>, FALSE, "/", "symlink2", Chains(<< <<"a", "a.b", "top">> >>)) : dummy \in {1} }
  (* a link whose target has a LONGER name closes a cycle made of filename parents only: an error, not a loop *)
  \cup { Case(FsOf(<<Plain("app.prod", 0, 1), Plain("app.prod.live", 0, 2)>>, << <<"app", "yaml", "app.prod.live." \o ExtAt(2, 0)>> >>),
              <<inp>>, FALSE, "/", "symlinkcycle", Fails) : inp \in {"app.yaml", "app.prod." \o ExtAt(1, 0), "app.prod.live." \o ExtAt(2, 0)} }
  (* several inputs, left to right; with and without -P *)
  \cup { Case(FsOf(<<Plain("a", rot, 1), Plain("a.b", rot, 2), Plain("c", rot, 3), Plain("c.d", rot, 4)>>, <<>>),
              <<"a.b." \o ExtAt(2, rot), "c.d." \o ExtAt(4, rot)>>, sk, "/", "inputs",
              IF sk THEN Chains(<< <<"a.b">>, <<"c.d">> >>) ELSE Chains(<< <<"a", "a.b">>, <<"c", "c.d">> >>))
         : rot \in {0, 1}, sk \in BOOLEAN }
  (* a $match in a layer looks among the layer's OWN ancestors first: a document of another input, or of *)
  (* another branch of a $parent list, that matches the same pattern is not touched                       *)
  \cup { Case(FsOf(<< <<"one", "yaml", <<LayerDoc("one", [k \in {"kind"} |-> S("D")])>> >>,
                      <<"one.prod", "json", <<LayerDoc("one.prod", [k \in {"$match"} |-> pt])>> >>,
                      <<"two", "toml", <<LayerDoc("two", [k \in {"kind"} |-> S("D")])>> >>,
                      <<"two.prod", "yaml", <<LayerDoc("two.prod", [k \in {"$match"} |-> pt])>> >> >>, <<>>),
              inp, FALSE, "/", "matchown", exp)
         : pt \in {Single("kind", S("D")), EmptyMap}, <<inp, exp>> \in { << <<"one.prod.json", "two.prod.yaml">>, Chains(<< <<"one", "one.prod">>, <<"two", "two.prod">> >>) >>,
                              << <<"two.prod.yaml", "one.prod.json">>, Chains(<< <<"two", "two.prod">>, <<"one", "one.prod">> >>) >>,
                              << <<"one.yaml", "two.prod.yaml">>, Chains(<< <<"one">>, <<"two", "two.prod">> >>) >> } }
  \cup { Case(FsOf(<< <<"app", "yaml", <<LayerDoc("app", [k \in {"kind"} |-> S("D")])>> >>,
                      <<"app.one", "yaml", <<LayerDoc("app.one", [k \in {"$match"} |-> pt])>> >>,
                      <<"app.two", "yaml", <<LayerDoc("app.two", [k \in {"$match"} |-> pt])>> >>,
                      <<"all", "yaml", <<LayerDoc("all", [pk \in {"$parent"} |-> S("app.*")])>> >> >>, <<>>),
              <<"all.yaml">>, FALSE, "/", "matchown", Chains(<< <<"app", "app.one", "all">>, <<"app", "app.two", "all">> >>)) : pt \in {Single("kind", S("D")), EmptyMap} }
  (* -P ignores inheritance altogether, $parent included *)
  \cup { Case(FsOf(<<Plain("a", 0, 1), WithParent("a.b", 0, 2, pv)>>, <<>>), <<"a.b.json">>, TRUE, "/", "skipparent",
              Chains(<< <<"a.b">> >>)) : pv \in {S("a"), False, S("nope"), L(<<S("a")>>)} }
  (* a diamond loads its base twice: two output documents *)
  \cup { Case(FsOf(<<Plain("a", 0, 1), Plain("a.b", 0, 2), Plain("a.c", 0, 3), WithParent("top", 0, 4, L(<<S("a.b"), S("a.c")>>))>>, <<>>),
              <<"top.yml">>, FALSE, "/", "diamond", Chains(<< <<"a", "a.b", "top">>, <<"a", "a.c", "top">> >>)) : dummy \in {1} }
  (* the same file names in two directories: independent chains *)
  \cup { Case( ((W \o "/dev/app.yaml") :> File(<<LayerDoc("dev/app", <<>>)>>)) @@ ((W \o "/dev/app.web." \o e) :> File(<<LayerDoc("dev/app.web", <<>>)>>))
             @@ ((W \o "/prod/app.yaml") :> File(<<LayerDoc("prod/app", <<>>)>>)) @@ ((W \o "/prod/app.web." \o e) :> File(<<LayerDoc("prod/app.web", <<>>)>>)),
              <<"dev/app.web." \o e, "prod/app.web." \o e>>, FALSE, "/", "samenames",
              Chains(<< <<"dev/app", "dev/app.web">>, <<"prod/app", "prod/app.web">> >>)) : e \in {"yaml", "json", "toml"} }
  \cup { Case( ((W \o "/dev/app.yaml") :> File(<<LayerDoc("dev/app", <<>>)>>)) @@ ((W \o "/dev/app.web.yaml") :> File(<<LayerDoc("dev/app.web", <<>>)>>))
             @@ ((W \o "/prod/app.yaml") :> File(<<LayerDoc("prod/app", <<>>)>>)) @@ ((W \o "/prod/app.web.yaml") :> File(<<LayerDoc("prod/app.web", <<>>)>>))
             @@ ((W \o "/top.yaml") :> File(<<LayerDoc("top", [pk \in {"$parent"} |-> L(<<S("dev/app.web"), S("prod/app.web")>>)])>>)),
              <<"top.yaml">>, FALSE, "/", "samenamesparent",
              Chains(<< <<"dev/app", "dev/app.web", "top">>, <<"prod/app", "prod/app.web", "top">> >>)) : dummy \in {1} }
  (* a layer read from standard input: no filename inheritance, $parent still works, other inputs around it *)
  \cup { Case(FsOf(<<Plain("a", 0, 1), Plain("a.b", 0, 2)>>, <<>>) @@ (StdinKey :> File(<<LayerDoc("stdin", t[1])>>)),
              t[2], FALSE, "/", "stdin", t[3])
         : t \in { << <<>>, <<"./-.yaml">>, Chains(<< <<"stdin">> >>) >>,
                    << [pk \in {"$parent"} |-> S("a.b")], <<"./-.json">>, Chains(<< <<"a", "a.b", "stdin">> >>) >>,
                    << <<>>, <<"a.b.json", "./-.yaml">>, Chains(<< <<"a", "a.b">>, <<"stdin">> >>) >>,
                    << [pk \in {"$parent"} |-> False], <<"./-.toml">>, Chains(<< <<"stdin">> >>) >> } }
  (* a layer that APPENDS its document ($match: null) still hands it on to the layers below it: the *)
  (* appended document and the document of the layer above both receive the descendant layer        *)
  \cup { Case(FsOf(<<Plain("a", rot, 1), <<"a.b", IF rot = 0 THEN "yaml" ELSE "json", <<LayerDoc("a.b", [mk \in {"$match"} |-> Null])>> >>,
                     Plain("a.b.c", rot, 3)>>, <<>>),
              <<"a.b.c." \o ExtAt(3, rot)>>, FALSE, "/", "matchnull", Chains(<< <<"a", "a.b.c">>, <<"a.b", "a.b.c">> >>)) : rot \in {0, 1} }
  \cup { Case(FsOf(<< <<"p1", "yaml", <<LayerDoc("a", [pk \in {"$parent"} |-> False])>> >>,
                      <<"p2", "json", <<LayerDoc("a.b", [mk \in {"$match", "$parent"} |-> IF mk = "$match" THEN Null ELSE S("p1")])>> >>,
                      <<"p3", "yaml", <<LayerDoc("top", [pk \in {"$parent"} |-> S("p2")])>> >> >>, <<>>),
              <<"p3.yaml">>, FALSE, "/", "matchnull", Chains(<< <<"a", "top">>, <<"a.b", "top">> >>)) : dummy \in {1} }
  \cup { Case(FsOf(<< <<"a", "yaml", <<LayerDoc("a", [mk \in {"$match"} |-> Null])>> >>, Plain("a.b", 0, 2)>>, <<>>),
              <<"a.b.toml">>, FALSE, "/", "matchnull", Chains(<< <<"a", "a.b">> >>)) : dummy \in {1} }
  (* unsupported input extension, missing input *)
  \cup { Case(FsOf(<<Plain("a", 0, 1)>>, <<>>), <<inp>>, FALSE, "/", "badinput", Fails) : inp \in {"a.txt", "b.yaml", "a"} }

(* the order lists of the outputs *)
OrdersOf(outs) == [i \in DOMAIN outs |-> [j \in DOMAIN Elems(At(outs[i], "order")) |-> Pay(Elems(At(outs[i], "order"))[j])]]

RunOf(cs) == RunLayers(cs.fs, RootAt(cs.root), [i \in DOMAIN cs.inputs |-> Abs(W, cs.inputs[i])], cs.skip, <<>>)

LawC03(cs) ==
  LET r == RunOf(cs) IN
  IF cs.expect = Fails THEN ~r.ok
  ELSE r.ok /\ OrdersOf(r.v.outs) = cs.expect[2]

---------------------------------------------------------------------------
(* C18: a root directory /w/root, decoys outside it *)
R == "/w/root"
Decoy == File(<<LayerDoc("DECOY", <<>>)>>)
In(name, docs) == R \o "/" \o name :> File(docs)
Fs18(extra) ==
  (R \o "/a.yaml" :> File(<<LayerDoc("a", <<>>)>>)) @@ ("/w/out.yaml" :> Decoy) @@ ("/w/out.b.yaml" :> Decoy)
  @@ ("/w/other/o.yaml" :> Decoy) @@ (R \o "/sub/s.yaml" :> File(<<LayerDoc("s", <<>>)>>)) @@ extra

CasesC18(lazy) ==
  { Case(Fs18(In("a.b.yaml", <<LayerDoc("a.b", [pk \in {"$parent"} |-> S(pv)])>>)), <<"root/a.b.yaml">>, FALSE, R, "parentescape", Fails)
      : pv \in {"../out", "../other/o", "/w/out", "sub/../../out", "../out.*"} }
  \cup { Case(Fs18(In("a.b.yaml", <<LayerDoc("a.b", [pk \in {"$parent"} |-> S(pv)])>>)), <<"root/a.b.yaml">>, FALSE, R, "parentinside",
              Chains(<< <<pv2, "a.b">> >>))
      : pv \in {"sub/s"}, pv2 \in {"s"} }
  \cup { Case(Fs18(In("a.b.yaml", <<LayerDoc("a.b", [pk \in {"$parent"} |-> S("sub/../a")])>>)), <<"root/a.b.yaml">>, FALSE, R, "dotdotinside",
              Chains(<< <<"a", "a.b">> >>)) : dummy \in {1} }
  (* the chain continues outside by filename: root/../out.b.yaml reached through the input itself *)
  \cup { Case(Fs18(<<>>), <<inp>>, FALSE, R, "inputoutside", Fails) : inp \in {"out.yaml", "out.b.yaml", "other/o.yaml", "root/../out.yaml"} }
  (* symbolic links: relative inside, relative leaving, absolute, chained, directory links *)
  \cup { Case(Fs18((R \o "/l.yaml") :> Link(t[1])), <<"root/l.yaml">>, FALSE, R, "link", t[2])
      : t \in { <<"a.yaml", Chains(<< <<"a">> >>)>>, <<"sub/s.yaml", Chains(<< <<"s">> >>)>>,
                <<"../out.yaml", Fails>>, <<"/w/out.yaml", Fails>>, <<"/w/root/a.yaml", Fails>>,
                <<"sub/../../out.yaml", Fails>> } }
  \cup { Case(Fs18(((R \o "/l.yaml") :> Link("m.yaml")) @@ ((R \o "/m.yaml") :> Link(t[1]))), <<"root/l.yaml">>, FALSE, R, "chainlink", t[2])
      : t \in { <<"a.yaml", Chains(<< <<"a">> >>)>>, <<"../out.yaml", Fails>> } }
  \cup { Case(Fs18((R \o "/d") :> Link(t[1])), <<"root/d/" \o t[2]>>, FALSE, R, "dirlink", t[3])
      : t \in { <<"sub", "s.yaml", Chains(<< <<"s">> >>)>>, <<"..", "out.yaml", Fails>>, <<"../other", "o.yaml", Fails>>,
                <<"/w/other", "o.yaml", Fails>> } }
  (* root spellings *)
  \cup { Case(Fs18(<<>>), <<"root/a.yaml">>, FALSE, rt, "rootspelling", Chains(<< <<"a">> >>)) : rt \in {R, "/w", "/"} }
  \cup { Case(Fs18(<<>>), <<"root/a.yaml">>, FALSE, R \o "/sub", "rootexcludes", Fails) : dummy \in {1} }
  \cup { Case(Fs18(<<>>), <<"root/sub/s.yaml">>, FALSE, R \o "/sub", "rootsub", Chains(<< <<"s">> >>)) : dummy \in {1} }

LawC18(cs) ==
  LET r == RunOf(cs) IN
  /\ IF cs.expect = Fails THEN ~r.ok ELSE r.ok /\ OrdersOf(r.v.outs) = cs.expect[2]
  /\ r.ok => \A p \in r.v.reads : Inside(cs.root, p)                       \* Confined
  (* non-interference: rewriting or deleting every file outside the root changes nothing *)
  /\ LET inside == [p \in {q \in DOMAIN cs.fs : Inside(cs.root, q)} |-> cs.fs[p]]
         r2 == RunLayers(inside, RootAt(cs.root), [i \in DOMAIN cs.inputs |-> Abs(W, cs.inputs[i])], cs.skip, <<>>)
     IN r2.ok = r.ok /\ (r.ok => r2.v.outs = r.v.outs)

---------------------------------------------------------------------------
(* C04: the format a layer is written in is not an input of any rule.       *)
(* Layer chains a <- a.b (<- a.b.c) whose comparisons involve numbers:      *)
(* $match / $delete patterns with integers and floats, $repeat counts,       *)
(* same-value overrides, 64-bit extremes, doubles needing 17 digits,         *)
(* denormals.  Every chain is written under ALL 3^n assignments of           *)
(* json / yaml / toml to its layers; the expected result is one and the      *)
(* same for every assignment (FormatFree).                                   *)
Mk2(k1, v1, k2, v2) == M(k1 :> v1 @@ k2 :> v2)
Mk3(k1, v1, k2, v2, k3, v3) == M(k1 :> v1 @@ k2 :> v2 @@ k3 :> v3)
Item(id, v) == Mk2("id", id, "v", S(v))
Big == I("9223372036854775807")
Base04 == M("n" :> I("1") @@ "big" :> Big @@ "min" :> I("-9223372036854775808") @@ "f" :> F("0.1")
            @@ "tiny" :> F("5e-324") @@ "huge" :> F("1.7976931348623157e+308") @@ "sum" :> F("0.30000000000000004")
            @@ "list" :> L(<<Item(I("1"), "a"), Item(I("2147483648"), "b"), Item(F("2.5"), "c"), Item(Big, "d"), Item(F("2"), "e")>>)
            @@ "w" :> F("3")        \* a whole-valued double: 3.0 is not the integer 3, in any format
            (* numbers below a list that holds nothing but lists *)
            @@ "grid" :> L(<<L(<<I("1"), I("2")>>), L(<<I("3"), I("4")>>), L(<<F("2.5")>>)>>)
            @@ "cells" :> L(<<L(<<Mk2("$repeat", I("2"), "c", S("$repeat"))>>)>>)
            @@ "name" :> S("x"))
Uppers04 == {
  Single("list", L(<<Mk2("$match", Single("id", I("2147483648")), "v", S("B"))>>)),
  Single("list", L(<<Mk2("$match", Single("id", Big), "v", S("D"))>>)),
  Single("list", L(<<Mk2("$match", Single("id", F("2.5")), "v", S("C"))>>)),
  Single("list", L(<<Single("$delete", Single("id", I("1")))>>)),
  Single("list", L(<<Single("$delete", Single("id", F("2.5")))>>)),
  Single("list", L(<<Single("$delete", Single("id", I("3")))>>)),
  Single("n", I("1")), Single("big", Big), Single("f", F("0.1")), Single("tiny", F("5e-324")), Single("sum", F("0.30000000000000004")),
  Single("min", I("-9223372036854775808")), Single("huge", F("1.7976931348623157e+308")),
  Single("n", I("2")), Single("f", F("0.10000000000000002")), Single("big", I("9223372036854775806")),
  Mk2("$repeat", I("2"), "i", S("$repeat")), Mk2("$match", Single("big", Big), "hit", True), Mk2("$match", Single("f", F("0.1")), "hit", True),
  Mk2("$match", Single("n", F("1.5")), "hit", True),
  Single("w", F("3")), Single("w", I("3")), Single("n", F("1")),
  Single("list", L(<<Mk2("$match", Single("id", F("2")), "v", S("E"))>>)), Single("list", L(<<Mk2("$match", Single("id", I("2")), "v", S("E"))>>)),
  Single("list", L(<<Single("$delete", Single("id", F("1")))>>)),
  Mk2("$match", Single("w", F("3")), "hit", True), Mk2("$match", Single("w", I("3")), "hit", True),
  Single("grid", L(<<Single("$delete", L(<<I("3")>>))>>)), Single("grid", L(<<Single("$delete", L(<<F("2.5")>>))>>)),
  Single("grid", L(<<Single("$delete", L(<<I("5")>>))>>)),
  Mk2("$match", Single("grid", L(<<L(<<I("4")>>)>>)), "hit", True), Mk2("$match", Single("grid", L(<<L(<<F("4")>>)>>)), "hit", True)
}
Thirds04 == { Single("$repeat", I("3")), Single("n", I("2")), Single("list", L(<<Single("$delete", Single("id", I("2147483648")))>>)) }
Fmts04 == {"json", "yaml", "toml"}
Chain2(u, e1, e2) == FsOf(<< <<"a", e1, <<Base04>> >>, <<"a.b", e2, <<u>> >> >>, <<>>)
Chain3(u, t, e1, e2, e3) == FsOf(<< <<"a", e1, <<Base04>> >>, <<"a.b", e2, <<u>> >>, <<"a.b.c", e3, <<t>> >> >>, <<>>)
EmptyDocBase(e1, e2, first) ==
  FsOf(<< <<"a", e1, IF first THEN <<EmptyMap, Single("x", I("1"))>> ELSE <<Single("x", I("1")), EmptyMap>> >>,
          <<"a.b", e2, <<Mk2("$match", EmptyMap, "y", I("2"))>> >> >>, <<>>)
CasesC04(lazy) ==
  {Case(EmptyDocBase(e1, e2, fst), <<"a.b." \o e2>>, FALSE, "/", "emptydoc", <<"free", EmptyDocBase("json", "json", fst), <<"a.b.json">> >>)
     : e1 \in Fmts04, e2 \in Fmts04, fst \in BOOLEAN} \cup
  {Case(Chain2(u, e1, e2), <<"a.b." \o e2>>, FALSE, "/", "two", <<"free", Chain2(u, "json", "json"), <<"a.b.json">> >>)
     : u \in Uppers04, e1 \in Fmts04, e2 \in Fmts04}
  \cup {Case(Chain3(u, t, e1, e2, e3), <<"a.b.c." \o e3>>, FALSE, "/", "three", <<"free", Chain3(u, t, "json", "json", "json"), <<"a.b.c.json">> >>)
     : u \in {x \in Uppers04 : ~(IsMap(x) /\ Has(x, "$match"))}, t \in Thirds04, e1 \in Fmts04, e2 \in Fmts04, e3 \in Fmts04}
StripRun(r) == IF r.ok THEN [ok |-> TRUE, outs |-> r.v.outs] ELSE [ok |-> FALSE, outs |-> <<>>]
LawC04(cs) ==   \* FormatFree: the all-JSON writing of the same chain gives the same result
  StripRun(RunOf(cs)) = StripRun(RunLayers(cs.expect[2], RootAt("/"), [i \in DOMAIN cs.expect[3] |-> Abs(W, cs.expect[3][i])], FALSE, <<>>))

Cases == CASE Family = "C03" -> CasesC03(0) [] Family = "C18" -> CasesC18(0) [] Family = "C04" -> CasesC04(0)
Law(cs) == CASE Family = "C03" -> LawC03(cs) [] Family = "C18" -> LawC18(cs) [] Family = "C04" -> LawC04(cs)

StartOf(cs) == RInit(cs.fs, RootAt(cs.root), [i \in DOMAIN cs.inputs |-> Abs(W, cs.inputs[i])], cs.skip)

Emit(cs) ==
  LET r == RunOf(cs) IN
  PrintT("@@V " \o ToJson([family |-> Family, tag |-> cs.tag, fs |-> cs.fs, inputs |-> cs.inputs, skip |-> cs.skip,
                           root |-> cs.root, ok |-> r.ok, outs |-> IF r.ok THEN r.v.outs ELSE <<>>,
                           reads |-> IF r.ok THEN SetToSeq(r.v.reads) ELSE <<>>,
                           steps |-> labels,
                           err |-> IF r.ok THEN "" ELSE r.err]))

Mine(cs) == (Len(ToJson(cs.inputs)) + Len(ToJson(cs.expect)) + Cardinality(DOMAIN cs.fs)) % NShards = Shard

Init == /\ c \in {x \in Cases : Mine(x)} /\ phase = "new"
        /\ rs = Settle(StartOf(c)) /\ labels = <<>>

(* one reported step of the small-step resolver *)
StepAction ==
  /\ phase = "new" /\ rs.status = "run"
  /\ labels' = Append(labels, NextLabel(rs))
  /\ rs' = Settle(Step(rs))
  /\ UNCHANGED <<c, phase>>

(* the run is over: the small-step machine must agree with the function, the law must hold *)
Finish ==
  /\ phase = "new" /\ rs.status # "run"
  /\ Assert(RefinesRunLayers(StartOf(c), rs), <<"the small-step resolver does not refine RunLayers", c.tag, c.inputs>>)
  /\ Assert(Law(c), <<"law fails in the specification", Family, c.tag, c.inputs, c.expect, RunOf(c)>>)
  /\ Emit(c)
  /\ phase' = "done" /\ UNCHANGED <<c, rs, labels>>

Next == StepAction \/ Finish
Spec == Init /\ [][Next]_vars
TypeOK == phase \in {"new", "done"}
(* invariants of every intermediate state of the resolver *)
Inv == ResolverInv(rs)
=============================================================================
