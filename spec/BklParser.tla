----------------------------- MODULE BklParser -----------------------------
(***************************************************************************)
(* The Parser machine (parser.go, document.go).                            *)
(*                                                                         *)
(* Abstract state of one Parser:                                           *)
(*   docs : Seq([id, data])      the merged, unevaluated documents         *)
(*   par  : [id -> SUBSET id]    direct Parents of every Document object   *)
(*                               the parser has seen (patches included)    *)
(* A patch is [id, parents (sequence of ids), data].                       *)
(* The operators are pure functions of the state so that the bounded       *)
(* models, the trace specifications and the file-level machines share them.*)
(***************************************************************************)
EXTENDS BklMerge

ParOf(par, id) == IF id \in DOMAIN par THEN par[id] ELSE {}
ParPut(par, id, ps) ==
  [x \in (DOMAIN par) \cup {id} |-> IF x = id THEN ps ELSE par[x]]

(* Document.AllParents: transitive closure of Parents, by id *)
RECURSIVE Closure(_, _)
Closure(par, ids) ==
  LET next == ids \cup UNION {ParOf(par, x) : x \in ids} IN
  IF next = ids THEN ids ELSE Closure(par, next)
AllParents(par, direct) == Closure(par, direct)

DocIds(docs) == {docs[i].id : i \in DOMAIN docs}

(* indices of the documents a patch is applied to, or a verdict            *)
(*   [kind |-> "append" | "matchnull" | "merge" | "error", idx, data]      *)
Targets(docs, par, patch) ==
  LET d0       == patch.data
      hasMatch == IsMap(d0) /\ Has(d0, "$match")
      pat      == At(d0, "$match")
      body     == IF hasMatch THEN Del(d0, "$match") ELSE d0
      anc      == AllParents(par, SeqToSet(patch.parents))
      parIdx   == {i \in DOMAIN docs : docs[i].id \in anc}
  IN
  IF hasMatch THEN
     IF IsNull(pat) THEN [kind |-> "matchnull", idx |-> {}, data |-> body]
     ELSE LET inPar == {i \in parIdx : Match(docs[i].data, pat)}
              inAll == {i \in DOMAIN docs : Match(docs[i].data, pat)}
              sel   == IF inPar # {} THEN inPar ELSE inAll
          IN IF sel = {} THEN [kind |-> "error", idx |-> {}, data |-> body]
             ELSE [kind |-> "merge", idx |-> sel, data |-> body]
  ELSE IF parIdx # {} THEN [kind |-> "merge", idx |-> parIdx, data |-> body]
  ELSE [kind |-> "append", idx |-> {}, data |-> body]

(* MergeDocument: returns [ok, docs, par] (docs/par meaningful when ok) *)
MergeDocumentOp(docs, par, patch) ==
  LET t    == Targets(docs, par, patch)
      par0 == ParPut(par, patch.id, SeqToSet(patch.parents))
  IN
  CASE t.kind = "error" -> [ok |-> FALSE, err |-> "nomatch", docs |-> docs, par |-> par]
    [] t.kind = "append" ->
         [ok |-> TRUE, err |-> "",
          docs |-> Append(docs, [id |-> patch.id, data |-> t.data]),
          par |-> par0]
    [] t.kind = "matchnull" ->
         LET nid == patch.id \o "|matchnull" IN
         [ok |-> TRUE, err |-> "",
          docs |-> Append(docs, [id |-> nid, data |-> t.data]),
          par |-> ParPut(ParPut(par0, nid, {}), patch.id,
                         SeqToSet(patch.parents) \cup {nid})]
    [] t.kind = "merge" ->
         LET res == [i \in t.idx |-> Merge(docs[i].data, t.data)] IN
         IF \E i \in t.idx : ~res[i].ok
         THEN [ok |-> FALSE,
               err |-> res[CHOOSE i \in t.idx : ~res[i].ok /\ \A j \in t.idx : j < i => res[j].ok].err,
               docs |-> docs, par |-> par]
         ELSE [ok |-> TRUE, err |-> "",
               docs |-> [i \in DOMAIN docs |->
                           IF i \in t.idx THEN [id |-> docs[i].id, data |-> res[i].v]
                           ELSE docs[i]],
               par |-> ParPut(par0, patch.id,
                              SeqToSet(patch.parents) \cup {docs[i].id : i \in t.idx})]

(* a sequence of patches, e.g. all documents of a file, applied in order *)
RECURSIVE MergePatches(_, _, _)
MergePatches(docs, par, patches) ==
  IF Len(patches) = 0 THEN [ok |-> TRUE, err |-> "", docs |-> docs, par |-> par]
  ELSE LET r == MergeDocumentOp(docs, par, patches[1]) IN
       IF ~r.ok THEN r ELSE MergePatches(r.docs, r.par, Tail(patches))
=============================================================================
