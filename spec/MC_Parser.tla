----------------------------- MODULE MC_Parser -----------------------------
(***************************************************************************)
(* Bounded model of one Parser driven by call histories (C02, C19).        *)
(*                                                                         *)
(* The history is part of the state on purpose: a defect of the real code  *)
(* may live in hidden state that only the real history creates (shared     *)
(* patch data, stored documents rewritten by an output call), so every     *)
(* explored *path* is a distinct state and is printed as one vector; the   *)
(* harness drives ONE live Parser along the whole path and compares the    *)
(* projected state after every call.                                       *)
(*                                                                         *)
(* Calls: merge (MergeDocument of a patch whose parents are the base       *)
(* documents / the previous patch / none), docs (Documents), out (Output-  *)
(* Documents).  Alphabet and base streams are chosen by the constant       *)
(* Family ("C02" | "C19").                                                 *)
(***************************************************************************)
EXTENDS BklProps, Json, SequencesExt

CONSTANTS Family, MaxCalls, Shard, NShards

VARIABLES docs, par, status, steps, lastPatch
vars == <<docs, par, status, steps, lastPatch>>

AsciiOrder == <<" ","!","\"","#","$","%","&","'","(",")","*","+",",","-",".","/",
  "0","1","2","3","4","5","6","7","8","9",":",";","<","=",">","?","@",
  "A","B","C","D","E","F","G","H","I","J","K","L","M","N","O","P","Q","R","S","T","U","V","W","X","Y","Z",
  "[","\\","]","^","_","`",
  "a","b","c","d","e","f","g","h","i","j","k","l","m","n","o","p","q","r","s","t","u","v","w","x","y","z",
  "{","|","}","~">>
AsciiLower == {"a","b","c","d","e","f","g","h","i","j","k","l","m","n","o","p","q","r","s","t","u","v","w","x","y","z"}

Mk2(k1, v1, k2, v2) == M(k1 :> v1 @@ k2 :> v2)
Mk3(k1, v1, k2, v2, k3, v3) == M(k1 :> v1 @@ k2 :> v2 @@ k3 :> v3)
Mk4(k1, v1, k2, v2, k3, v3, k4, v4) == M(k1 :> v1 @@ k2 :> v2 @@ k3 :> v3 @@ k4 :> v4)

---------------------------------------------------------------------------
(* C02: stream layering *)
D1 == Mk2("a", I("1"), "id", I("1"))
D2 == Mk2("a", I("2"), "id", I("2"))
D3 == Mk3("a", I("1"), "id", I("3"), "l", L(<<I("1")>>))
(* a document that is nothing but a reference (one $merge / $replace / $encode key) is a placeholder:  *)
(* no pattern selects it, the empty pattern included                                                 *)
RefOnly1 == Single("$merge", Single("$match", Single("id", I("1"))))
RefOnly2 == Single("$replace", Single("$match", Single("id", I("2"))))
BasesC02 == { <<D1>>, <<D1, D2>>, <<D1, D2, D3>>, <<D1, D1>>, <<L(<<I("1")>>), D2>>, <<D1, RefOnly1>>, <<RefOnly2, D2>> }

MergeCall(data, parents) == [op |-> "merge", data |-> data, parents |-> parents]
PatchesC02 == {
  Single("b", I("5")), Single("a", Single("x", I("1"))), Single("a", Single("y", I("2"))),
  Single("a", I("1")), Single("a", S("$delete")), Mk2("$replace", True, "z", I("1")),
  Single("l", L(<<I("2")>>)),
  Mk2("$match", EmptyMap, "c", I("1")),
  Mk2("$match", Single("id", I("1")), "c", I("2")),
  Mk2("$match", Single("a", I("1")), "d", Single("k", I("1"))),
  Mk2("$match", Mk2("id", I("1"), "$invert", True), "e", I("1")),
  Mk2("$match", Single("id", I("9")), "c", I("3")),
  Mk2("$match", Null, "id", I("7")),
  Mk3("$match", Single("id", I("2")), "$replace", True, "id", I("2")),
  Mk2("$match", Single("id", I("7")), "f", I("1"))
}
CallsC02 == {MergeCall(p, ps) : p \in PatchesC02, ps \in {"base", "last"}}
            \cup {MergeCall(Single("g", I("1")), "none")}

---------------------------------------------------------------------------
(* C19: output is a pure observation *)
T1 == Mk4("a", I("1"), "b", S("$merge:a"), "c", Single("$merge", S("t")), "t", Mk2("x", I("1"), "$output", False))
T2 == Mk2("$repeat", I("2"), "n", S("$\"i{$repeat}\""))
T3 == Mk3("k", Single("v", I("1")), "r", Single("$replace", S("k")), "o", Mk2("$output", True, "w", S("$$x")))
T4 == L(<<Single("$repeat", I("2")), S("$repeat")>>)
(* cross-document references: whole document, $path, short form; the       *)
(* referenced document T1 itself contains a map with a `$merge` key        *)
T5 == Mk3("a", I("1"), "c", Mk2("$merge", S("t"), "k", I("0")), "t", Single("x", I("1")))
X1 == Mk3("t", Single("y", I("2")), "whole", Single("$replace", Single("$match", Single("a", I("1")))),
          "part", Single("$merge", Mk2("$match", Single("a", I("1")), "$path", S("t"))))
X2 == Mk3("t", Single("y", I("2")), "short", Single("$replace", L(<<Single("a", I("1")), S("c")>>)), "own", I("3"))
(* empty local containers that a merge fills: the filled form must stay on the evaluation copy *)
T6 == Mk2("tmpl", Mk2("opts", Single("r", I("3")), "lst", L(<<I("1")>>)),
          "svc", Mk3("$merge", S("tmpl"), "opts", EmptyMap, "lst", EmptyList))
(* a cross-document merge whose host holds a placeholder for a key of the target, the target's value for *)
(* that key holding a reference of its own: what is filled in must be a copy                              *)
T7 == Mk3("name", S("defaults"), "limits", Single("cpu", I("2")),
          "service", Mk2("port", I("80"), "resources", Mk2("$merge", L(<<Single("name", S("defaults")), S("limits")>>), "memory", S("1Gi"))))
X3 == Mk2("name", S("api"), "server", Mk2("$merge", L(<<Single("name", S("defaults")), S("service")>>), "resources", S("$required")))
BasesC19 == { <<T1>>, <<T2>>, <<T3>>, <<T1, T2>>, <<T4, T3>>, <<T5, X1>>, <<X2, T5>>, <<T6>>, <<T7, X3>> }
PatchesC19 == {
  Single("z", I("9")), Single("a", I("2")), Single("$repeat", I("3")),
  Single("t", Single("y", I("2"))), Single("k", Single("v", I("2"))),
  Mk2("$match", Null, "q", S("$\"{q2}\"")) , Mk2("$match", EmptyMap, "q2", I("1")),
  Single("n", S("$required")),
  (* changes only the document other documents refer to *)
  Mk2("$match", Single("a", I("1")), "t", Single("x", I("5"))),
  Mk2("$match", Single("name", S("defaults")), "limits", Single("cpu", I("4")))
}
CallsC19 == {MergeCall(p, "base") : p \in PatchesC19}
            \cup {[op |-> "docs"], [op |-> "out"], [op |-> "outbytes"]}

Bases == IF Family = "C02" THEN BasesC02 ELSE BasesC19
Calls == IF Family = "C02" THEN CallsC02 ELSE CallsC19

---------------------------------------------------------------------------
BaseId(i) == "b" \o NatStr(i)
CallId(n) == "c" \o NatStr(n)

InitState(base) ==
  LET patches == [i \in DOMAIN base |-> [id |-> BaseId(i), parents |-> <<>>, data |-> base[i]]]
      r == MergePatches(<<>>, <<>>, patches)
  IN r

BaseSeq == SetToSeq(Bases)
MyBases == {BaseSeq[i] : i \in {j \in DOMAIN BaseSeq : j % NShards = Shard}}

Init ==
  \E base \in MyBases :
    LET r == InitState(base) IN
    /\ docs = r.docs /\ par = r.par /\ status = "ok"
    /\ steps = << [op |-> "base", docs |-> r.docs] >>
    /\ lastPatch = "base"

Emit(ns) == PrintT("@@V " \o ToJson([family |-> Family, steps |-> ns]))
Finish(ns, st) == IF Len(ns) = MaxCalls + 1 \/ st # "ok" THEN Emit(ns) ELSE TRUE

BaseIds == {steps[1].docs[i].id : i \in DOMAIN steps[1].docs}

(* C02 action properties, asserted on every merge step *)
OrderPreserved(d0, d1) ==
  Len(d1) >= Len(d0) /\ \A i \in DOMAIN d0 : d1[i].id = d0[i].id
StreamProps(d0, p0, patch, r) ==
  LET t == Targets(d0, p0, patch) IN
  r.ok =>
    /\ OrderPreserved(d0, r.docs)
    /\ \A i \in DOMAIN d0 : i \notin t.idx => r.docs[i] = d0[i]                \* OnlyTargetsChange
    /\ \A i \in t.idx :                                                        \* AsIfAlone
         LET alone == Merge(d0[i].data, t.data) IN alone.ok /\ r.docs[i].data = alone.v
    /\ t.kind \in {"append", "matchnull"} => Len(r.docs) = Len(d0) + 1 /\ r.docs[Len(r.docs)].data = t.data

DoMerge(c) ==
  LET id    == CallId(Len(steps))
      ps    == IF c.parents = "none" THEN <<>>
               ELSE IF c.parents = "base" \/ lastPatch = "base" THEN SetToSeq(BaseIds)
               ELSE <<lastPatch>>
      patch == [id |-> id, parents |-> ps, data |-> c.data]
      r     == MergeDocumentOp(docs, par, patch)
      rec   == [op |-> "merge", patch |-> patch, ok |-> r.ok, docs |-> IF r.ok THEN r.docs ELSE <<>>]
      ns    == Append(steps, rec)
  IN /\ Assert(StreamProps(docs, par, patch, r), <<"stream property fails in the specification", docs, patch>>)
     /\ steps' = ns
     /\ IF r.ok THEN docs' = r.docs /\ par' = r.par /\ status' = "ok" /\ lastPatch' = id
        ELSE UNCHANGED <<docs, par, lastPatch>> /\ status' = "failed"
     /\ Finish(ns, IF r.ok THEN "ok" ELSE "failed")

DoDocs ==
  LET ns == Append(steps, [op |-> "docs", docs |-> docs]) IN
  /\ steps' = ns /\ UNCHANGED <<docs, par, status, lastPatch>> /\ Finish(ns, "ok")

DoOut(op) ==
  LET r  == EvalAll(docs, <<>>)
      ns == Append(steps, [op |-> op, ok |-> r.ok, outs |-> IF r.ok THEN r.v ELSE <<>>,
                           err |-> IF r.ok THEN "" ELSE r.err, docs |-> docs])
  IN /\ steps' = ns /\ UNCHANGED <<docs, par, status, lastPatch>> /\ Finish(ns, "ok")

Next ==
  /\ status = "ok" /\ Len(steps) <= MaxCalls
  /\ \E c \in Calls :
       CASE c.op = "merge" -> DoMerge(c)
         [] c.op = "docs" -> DoDocs
         [] OTHER -> DoOut(c.op)

Spec == Init /\ [][Next]_vars

(* C19: an output or Documents call never changes the parser state *)
IsObservation == steps' # steps /\ steps'[Len(steps')].op \in {"docs", "out", "outbytes"}
ObservationIsPure == [][IsObservation => UNCHANGED <<docs, par>>]_vars
TypeOK == Len(steps) <= MaxCalls + 1
=============================================================================
