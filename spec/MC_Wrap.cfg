SPECIFICATION Spec
CONSTANTS
  CharOrder <- AsciiOrder
  LowerSet <- AsciiLower
  MaxFuel = 64
  MaxArgs = 2
  Shard = 0
  NShards = 1
INVARIANT TypeOK
CHECK_DEADLOCK FALSE
