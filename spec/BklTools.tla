----------------------------- MODULE BklTools -----------------------------
(***************************************************************************)
(* bklr, bkli, bkld.                                                       *)
(*                                                                         *)
(* bklr is specified exactly (Skeleton).  bkld and bkli have freedom in    *)
(* their answer, so they are specified by CONTRACTS that are evaluated on  *)
(* the tool's real output with the specification's own Merge / Eval:       *)
(*   DiffOK(base, target, L)   base + L evaluates to exactly target        *)
(*   IntersectOK(r, inputs)    r is common, marks differing fields         *)
(*                             $required, and is maximal                   *)
(* DiffModel / IntersectModel transcribe the current algorithms; they are  *)
(* used only to explore the design in the bounded models (which pairs      *)
(* break the contract), never as an oracle for the code.                   *)
(***************************************************************************)
EXTENDS BklCli

Req == S("$required")

---------------------------------------------------------------------------
(* C17 bklr: exactly the $required skeleton *)
RECURSIVE HasReq(_), Skel(_)
HasReq(t) == IF IsMap(t) THEN \E k \in Keys(t) : HasReq(At(t, k))
             ELSE IF IsList(t) THEN \E i \in DOMAIN Elems(t) : HasReq(Elems(t)[i])
             ELSE t = Req
Skel(t) == IF IsMap(t) THEN M([k \in {x \in Keys(t) : HasReq(At(t, x))} |-> Skel(At(t, k))])
           ELSE IF IsList(t) THEN LET q == SeqFilter(Elems(t), HasReq) IN L([i \in DOMAIN q |-> Skel(q[i])])
           ELSE t
Skeleton(t) == IF HasReq(t) THEN Skel(t) ELSE Null

(* required.go, transcribed *)
RECURSIVE RequiredModel(_)
RequiredModel(t) ==
  IF IsMap(t) THEN
     LET kept == {k \in Keys(t) : ~IsNull(RequiredModel(At(t, k)))} IN
     IF kept = {} THEN Null ELSE M([k \in kept |-> RequiredModel(At(t, k))])
  ELSE IF IsList(t) THEN
     LET q == SeqFilter([i \in DOMAIN Elems(t) |-> RequiredModel(Elems(t)[i])], LAMBDA x : ~IsNull(x)) IN
     IF Len(q) = 0 THEN Null ELSE L(q)
  ELSE IF t = Req THEN t ELSE Null

(* every marker of the skeleton sits where the input has one; nothing else *)
RECURSIVE OnlyMarkers(_)
OnlyMarkers(t) == IF IsMap(t) THEN Size(t) > 0 /\ \A k \in Keys(t) : OnlyMarkers(At(t, k))
                  ELSE IF IsList(t) THEN LLen(t) > 0 /\ \A i \in DOMAIN Elems(t) : OnlyMarkers(Elems(t)[i])
                  ELSE t = Req

---------------------------------------------------------------------------
(* C15 bkld: the contract *)
(* applying a layer document L to base the way `bkl base.x base.layer.x` does *)
ApplyLayer(base, lay) ==
  LET s0 == MergeDocumentOp(<<>>, <<>>, [id |-> "base", parents |-> <<>>, data |-> base]) IN
  IF IsNull(lay) THEN [ok |-> TRUE, err |-> "", docs |-> s0.docs, par |-> s0.par]    \* an empty layer file
  ELSE MergeDocumentOp(s0.docs, s0.par, [id |-> "layer", parents |-> <<"base">>, data |-> lay])

DiffOK(base, target, lay) ==
  LET m == ApplyLayer(base, lay) IN
  /\ m.ok
  /\ EvalAll(m.docs, <<>>) = Ok(<<target>>)

(* "empty and changes nothing" *)
EmptyLayer(lay) == IsNull(lay) \/ lay = Single("$match", EmptyMap) \/ lay = EmptyMap

(* diff.go, transcribed (design exploration only) *)
RECURSIVE DiffModel(_, _)
DiffListModel(dq, sq) ==   \* dst, src list payloads
  LET added   == SeqFilter(dq, LAMBDA v : ~\E j \in DOMAIN sq : sq[j] = v)
      removed == SeqFilter(sq, LAMBDA v : ~\E j \in DOMAIN dq : dq[j] = v)
      replace == L(Append(dq, Single("$replace", True)))
  IN IF \E i \in DOMAIN removed : ~IsMap(removed[i]) THEN replace
     ELSE LET r == added \o [i \in DOMAIN removed |-> Single("$delete", removed[i])] IN
          (* the candidate patch is kept only if it really produces the target list *)
          IF MergeListList(L(sq), L(r)) # Ok(L(dq)) THEN replace
          ELSE IF Len(r) = 0 THEN Null ELSE L(r)
Mergeable(dst, src) == IF IsMap(src) THEN IsMap(dst) \/ Size(src) = 0
                       ELSE IF IsList(src) THEN IsList(dst) ELSE TRUE
DiffModel(dst, src) ==
  IF IsMap(dst) THEN
     IF ~IsMap(src) THEN dst
     ELSE IF \E k \in Keys(dst) \cap Keys(src) : ~Mergeable(At(dst, k), At(src, k)) THEN Put(dst, "$replace", True)
     ELSE LET changed == {k \in Keys(dst) : ~Has(src, k) \/ ~IsNull(DiffModel(At(dst, k), At(src, k)))}
              gone    == Keys(src) \ Keys(dst)
          IN IF changed \cup gone = {} THEN Null
             ELSE M([k \in changed \cup gone |->
                       IF k \in gone THEN S("$delete")
                       ELSE IF Has(src, k) THEN DiffModel(At(dst, k), At(src, k)) ELSE At(dst, k)])
  ELSE IF IsList(dst) THEN
     IF ~IsList(src) THEN dst ELSE DiffListModel(Elems(dst), Elems(src))
  ELSE IF dst = src THEN Null ELSE dst
DiffDocModel(target, base) ==
  LET d == DiffModel(target, base) IN
  IF IsMap(d) THEN Put(d, "$match", EmptyMap)
  ELSE IF IsList(d) THEN L(<<Single("$match", EmptyMap)>> \o Elems(d))
  ELSE d

---------------------------------------------------------------------------
(* C16 bkli: the contract on a result r for inputs *)
RECURSIVE Common(_, _), MarksDiffering(_, _), Maximal(_, _)

(* number of occurrences of a whole value in a list *)
Count(q, v) == Cardinality({i \in DOMAIN q : q[i] = v})

(* every value r contains occurs in the input at the same place; list       *)
(* entries are whole values and r never has more copies than the input      *)
Common(r, x) ==
  IF r = Req THEN TRUE
  ELSE IF IsMap(r) THEN IsMap(x) /\ \A k \in Keys(r) : Has(x, k) /\ Common(At(r, k), At(x, k))
  ELSE IF IsList(r) THEN
       /\ IsList(x)
       /\ \/ Elems(r) = <<Req>>
          \/ \A i \in DOMAIN Elems(r) : Count(Elems(r), Elems(r)[i]) <= Count(Elems(x), Elems(r)[i])
  ELSE r = x

(* a field present in all inputs with differing values is marked $required *)
MarksDiffering(r, xs) ==
  IF IsMap(r) /\ \A i \in DOMAIN xs : IsMap(xs[i]) THEN
     \A k \in {y \in Keys(xs[1]) : \A i \in DOMAIN xs : Has(xs[i], y)} :
        Has(r, k) /\
        (IF \A i \in DOMAIN xs : At(xs[i], k) = At(xs[1], k) THEN At(r, k) = At(xs[1], k)
         ELSE IF \A i \in DOMAIN xs : IsMap(At(xs[i], k)) THEN MarksDiffering(At(r, k), [i \in DOMAIN xs |-> At(xs[i], k)])
         ELSE IF \A i \in DOMAIN xs : IsList(At(xs[i], k)) THEN
              /\ IsList(At(r, k))
              (* differing lists that share no entry at all: the field carries the marker, not an empty list *)
              /\ ((\A v \in UNION {SeqToSet(Elems(At(xs[i], k))) : i \in DOMAIN xs} :
                      \E i \in DOMAIN xs : Count(Elems(At(xs[i], k)), v) = 0)
                    => At(r, k) = L(<<Req>>))
         ELSE At(r, k) = Req)
  ELSE TRUE

(* nothing shared is dropped: shared map fields recursively, shared list    *)
(* entries as a multiset                                                    *)
Maximal(r, xs) ==
  IF \A i \in DOMAIN xs : IsMap(xs[i]) THEN
     /\ IsMap(r)
     /\ \A k \in {y \in Keys(xs[1]) : \A i \in DOMAIN xs : Has(xs[i], y)} :
          Has(r, k) /\ (At(r, k) = Req \/ Maximal(At(r, k), [i \in DOMAIN xs |-> At(xs[i], k)]))
  ELSE IF \A i \in DOMAIN xs : IsList(xs[i]) THEN
     /\ IsList(r)
     /\ \A v \in UNION {SeqToSet(Elems(xs[i])) : i \in DOMAIN xs} :
          LET m == CHOOSE n \in 0..20 : (\A i \in DOMAIN xs : Count(Elems(xs[i]), v) >= n)
                                        /\ (n = 20 \/ \E i \in DOMAIN xs : Count(Elems(xs[i]), v) < n + 1)
          IN Count(Elems(r), v) >= m
  ELSE TRUE

IntersectOK(r, xs) ==
  /\ \A i \in DOMAIN xs : Common(r, xs[i])
  /\ MarksDiffering(r, xs)
  /\ Maximal(r, xs)
SelfIntersect(r, x) == r = x      \* intersecting a document with itself returns it

(* intersect.go, transcribed (design exploration only) *)
RECURSIVE IntersectModel(_, _)
IntersectModel(a, b) ==
  IF IsNull(b) THEN Null
  ELSE IF IsMap(a) THEN
       IF ~IsMap(b) THEN Req
       ELSE LET ks == {k \in Keys(a) : Has(b, k) /\
                         ((IsNull(At(a, k)) /\ IsNull(At(b, k))) \/ ~IsNull(IntersectModel(At(a, k), At(b, k))))}
            IN M([k \in ks |-> IF IsNull(At(a, k)) /\ IsNull(At(b, k)) THEN Null ELSE IntersectModel(At(a, k), At(b, k))])
  ELSE IF IsList(a) THEN
       IF ~IsList(b) THEN Req
       ELSE (* multiset intersection, in the order of a *)
            LET r == FoldRes(LAMBDA acc, v1 :
                               Ok(IF Count(acc, v1) < Count(Elems(b), v1) THEN Append(acc, v1) ELSE acc), <<>>, Elems(a)).v
            IN IF Len(r) = 0 /\ LLen(a) + LLen(b) > 0 THEN L(<<Req>>) ELSE L(r)
  ELSE IF IsNull(a) THEN Null
  ELSE IF a = b THEN a ELSE Req
=============================================================================
