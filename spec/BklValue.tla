----------------------------- MODULE BklValue -----------------------------
(***************************************************************************)
(* Value layer of the bkl specification.                                   *)
(*                                                                         *)
(* A tree (the Go type `any` restricted to what bkl handles) is a tagged   *)
(* tuple <<tag, payload>>:                                                 *)
(*   <<"m", [k1 |-> t1, ...]>>  map   (payload: function STRING -> tree)   *)
(*   <<"l", <<t1, ...>>>>       list                                       *)
(*   <<"s", "text">>            string                                     *)
(*   <<"i", "-42">>             integer, canonical decimal spelling        *)
(*   <<"f", "0.1">>             float, shortest 'g' spelling               *)
(*   <<"b", "true"|"false">>    bool                                       *)
(*   <<"n", "">>                null                                       *)
(* The tag comes first, so TLC's tuple equality never compares payloads of *)
(* different types; plain = is the Go == / reflect.DeepEqual on trees.     *)
(*                                                                         *)
(* Results of fallible operations are records [ok |-> TRUE, v |-> tree] or *)
(* [ok |-> FALSE, err |-> class].  Which of several errors is reported is  *)
(* not part of any property (Go ranges over maps in random order); the     *)
(* specification reports the first one in its own deterministic order.     *)
(***************************************************************************)
EXTENDS Naturals, Sequences, FiniteSets, TLC

CONSTANTS CharOrder,   \* sequence of one-character strings, sorted by code point
          LowerSet     \* set of one-character strings x with unicode.IsLower(x)

---------------------------------------------------------------------------
(* constructors and accessors *)
Tag(t) == t[1]
Pay(t) == t[2]
S(x)   == <<"s", x>>
I(x)   == <<"i", x>>
F(x)   == <<"f", x>>
Null   == <<"n", "">>
True   == <<"b", "true">>
False  == <<"b", "false">>
M(f)   == <<"m", f>>
L(q)   == <<"l", q>>
EmptyMap  == <<"m", <<>>>>
EmptyList == <<"l", <<>>>>

IsMap(t)    == t[1] = "m"
IsList(t)   == t[1] = "l"
IsStr(t)    == t[1] = "s"
IsInt(t)    == t[1] = "i"
IsBool(t)   == t[1] = "b"
IsNull(t)   == t[1] = "n"
IsScalar(t) == t[1] \notin {"m", "l"}

Keys(m)      == DOMAIN m[2]
Has(m, k)    == k \in DOMAIN m[2]
At(m, k)     == m[2][k]
Put(m, k, v) == <<"m", [x \in (DOMAIN m[2]) \cup {k} |-> IF x = k THEN v ELSE m[2][x]]>>
Del(m, k)    == <<"m", [x \in (DOMAIN m[2]) \ {k} |-> m[2][x]]>>
Size(m)      == Cardinality(DOMAIN m[2])
Elems(l)     == l[2]
LLen(l)      == Len(l[2])
Single(k, v) == <<"m", (k :> v)>>

(* Go: toString(v) -- "" for non-strings *)
ToStr(t) == IF t[1] = "s" THEN t[2] ELSE ""

(* results *)
Ok(v)    == [ok |-> TRUE, v |-> v]
Err(c)   == [ok |-> FALSE, err |-> c]

---------------------------------------------------------------------------
(* strings *)
Char(s, i)       == SubSeq(s, i, i)
HasPrefix(s, p)  == Len(s) >= Len(p) /\ SubSeq(s, 1, Len(p)) = p
HasSuffix(s, p)  == Len(s) >= Len(p) /\ SubSeq(s, Len(s) - Len(p) + 1, Len(s)) = p
DropPrefix(s, p) == SubSeq(s, Len(p) + 1, Len(s))
DropSuffix(s, p) == SubSeq(s, 1, Len(s) - Len(p))
TrimPrefix(s, p) == IF HasPrefix(s, p) THEN DropPrefix(s, p) ELSE s
TrimSuffix(s, p) == IF HasSuffix(s, p) THEN DropSuffix(s, p) ELSE s

(* first index >= from at which the one-character string c occurs, else 0 *)
RECURSIVE IndexFrom(_, _, _)
IndexFrom(s, c, from) ==
  IF from > Len(s) THEN 0
  ELSE IF SubSeq(s, from, from) = c THEN from
  ELSE IndexFrom(s, c, from + 1)

(* strings.Split(s, c) for a one-character separator *)
RECURSIVE SplitFrom(_, _, _)
SplitFrom(s, c, from) ==
  LET i == IndexFrom(s, c, from) IN
  IF i = 0 THEN << SubSeq(s, from, Len(s)) >>
  ELSE << SubSeq(s, from, i - 1) >> \o SplitFrom(s, c, i + 1)
Split(s, c) == SplitFrom(s, c, 1)

RECURSIVE JoinStr(_, _)
JoinStr(q, d) ==
  IF Len(q) = 0 THEN ""
  ELSE IF Len(q) = 1 THEN q[1]
  ELSE q[1] \o d \o JoinStr(Tail(q), d)

(* strings.ReplaceAll(s, "$$", "$"): left to right, non-overlapping *)
RECURSIVE UnDollarFrom(_, _)
UnDollarFrom(s, i) ==
  IF i > Len(s) THEN ""
  ELSE IF i < Len(s) /\ SubSeq(s, i, i + 1) = "$$" THEN "$" \o UnDollarFrom(s, i + 2)
  ELSE SubSeq(s, i, i) \o UnDollarFrom(s, i + 1)
HasDollar(s) == IndexFrom(s, "$", 1) # 0
UnDollar(s) == IF HasDollar(s) THEN UnDollarFrom(s, 1) ELSE s

(* the escaping a user applies: every $ doubled *)
RECURSIVE DoubleDollarFrom(_, _)
DoubleDollarFrom(s, i) ==
  IF i > Len(s) THEN ""
  ELSE IF SubSeq(s, i, i) = "$" THEN "$$" \o DoubleDollarFrom(s, i + 1)
  ELSE SubSeq(s, i, i) \o DoubleDollarFrom(s, i + 1)
DoubleDollar(s) == IF HasDollar(s) THEN DoubleDollarFrom(s, 1) ELSE s

(* validate.go: `$` followed by a lower-case letter *)
DirectiveShaped(s) == Len(s) >= 2 /\ SubSeq(s, 1, 1) = "$" /\ SubSeq(s, 2, 2) \in LowerSet

(* ordering of strings = Go's < on strings (byte order = code point order) *)
Rank    == LET co == CharOrder IN
           [c \in {co[i] : i \in DOMAIN co} |-> CHOOSE i \in DOMAIN co : co[i] = c]
RECURSIVE StrLessFrom(_, _, _)
StrLessFrom(a, b, i) ==
  IF i > Len(b) THEN FALSE
  ELSE IF i > Len(a) THEN TRUE
  ELSE LET ca == SubSeq(a, i, i)  cb == SubSeq(b, i, i) IN
       IF ca = cb THEN StrLessFrom(a, b, i + 1) ELSE Rank[ca] < Rank[cb]
StrLess(a, b) == a # b /\ StrLessFrom(a, b, 1)

RECURSIVE SortedSeq(_)
SortedSeq(K) ==
  IF K = {} THEN <<>>
  ELSE LET k == CHOOSE x \in K : \A y \in K : y = x \/ StrLess(x, y)
       IN  <<k>> \o SortedSeq(K \ {k})
SortedKeys(m) == SortedSeq(DOMAIN m[2])

---------------------------------------------------------------------------
(* sequences *)
SeqFilter(q, P(_)) ==
  LET RECURSIVE go(_)
      go(s) == IF Len(s) = 0 THEN <<>>
               ELSE (IF P(s[1]) THEN <<s[1]>> ELSE <<>>) \o go(Tail(s))
  IN go(q)

SeqToSet(q) == {q[i] : i \in DOMAIN q}

(* fold over a sequence with early exit on error:                          *)
(*   Op(acc, elem) returns a result whose .v is the next accumulator       *)
FoldRes(Op(_, _), acc0, q0) ==
  LET RECURSIVE go(_, _)
      go(acc, q) == IF Len(q) = 0 THEN Ok(acc)
                    ELSE LET r == Op(acc, q[1]) IN
                         IF ~r.ok THEN r ELSE go(r.v, Tail(q))
  IN go(acc0, q0)

(* map a fallible function over a sequence, collecting a sequence of       *)
(* sequences (filterList semantics: each element yields 0..n elements)     *)
FlatMapRes(Op(_), q0) ==
  LET RECURSIVE go(_)
      go(q) == IF Len(q) = 0 THEN Ok(<<>>)
               ELSE LET r == Op(q[1]) IN
                    IF ~r.ok THEN r
                    ELSE LET rest == go(Tail(q)) IN
                         IF ~rest.ok THEN rest ELSE Ok(r.v \o rest.v)
  IN go(q0)

---------------------------------------------------------------------------
(* structural helpers over trees *)
RECURSIVE DropNulls(_)
DropNulls(t) ==
  IF IsMap(t) THEN
     LET ks == {k \in Keys(t) : ~IsNull(At(t, k))} IN
     M([k \in ks |-> DropNulls(At(t, k))])
  ELSE IF IsList(t) THEN
     LET q == SeqFilter(Elems(t), LAMBDA e : ~IsNull(e)) IN
     L([i \in DOMAIN q |-> DropNulls(q[i])])
  ELSE t

RECURSIVE HasNull(_)
HasNull(t) ==
  IF IsMap(t) THEN \E k \in Keys(t) : HasNull(At(t, k))
  ELSE IF IsList(t) THEN \E i \in DOMAIN Elems(t) : HasNull(Elems(t)[i])
  ELSE IsNull(t)

(* every string (key or value) of a tree satisfies P *)
AllStrings(t0, P(_)) ==
  LET RECURSIVE go(_)
      go(t) == IF IsMap(t) THEN \A k \in Keys(t) : P(k) /\ go(At(t, k))
               ELSE IF IsList(t) THEN \A i \in DOMAIN Elems(t) : go(Elems(t)[i])
               ELSE IF IsStr(t) THEN P(Pay(t))
               ELSE TRUE
  IN go(t0)

(* apply f to every string (keys and values) of a tree; key collisions     *)
(* cannot be resolved in general, callers use injective f                  *)
MapStrings(t0, f(_)) ==
  LET RECURSIVE go(_)
      go(t) == IF IsMap(t) THEN
                  M([k2 \in {f(k) : k \in Keys(t)} |->
                       go(At(t, CHOOSE k \in Keys(t) : f(k) = k2))])
               ELSE IF IsList(t) THEN L([i \in DOMAIN Elems(t) |-> go(Elems(t)[i])])
               ELSE IF IsStr(t) THEN S(f(Pay(t)))
               ELSE t
  IN go(t0)

RECURSIVE Depth(_)
DepthMax(Sx) == IF Sx = {} THEN 0 ELSE CHOOSE x \in Sx : \A y \in Sx : y <= x
Depth(t) ==
  IF IsMap(t) THEN 1 + DepthMax({Depth(At(t, k)) : k \in Keys(t)})
  ELSE IF IsList(t) THEN 1 + DepthMax({Depth(Elems(t)[i]) : i \in DOMAIN Elems(t)})
  ELSE 0
(* What a JSON reader sees of a value that bkl printed as JSON: Go prints the *)
(* double 3.0 as 3, so a whole-valued double arrives as an integer.  Used    *)
(* only where the observation is the JSON text of the CLI.                   *)
WholeDigits == {"0","1","2","3","4","5","6","7","8","9","-"}
WholeFloat(t) == t[1] = "f" /\ \A i \in 1..Len(Pay(t)) : Char(Pay(t), i) \in WholeDigits
RECURSIVE JsonOut(_)
JsonOut(t) ==
  IF IsMap(t) THEN M([k \in Keys(t) |-> JsonOut(At(t, k))])
  ELSE IF IsList(t) THEN L([i \in DOMAIN Elems(t) |-> JsonOut(Elems(t)[i])])
  ELSE IF WholeFloat(t) THEN <<"i", Pay(t)>>
  ELSE t
JsonOuts(q) == [i \in DOMAIN q |-> JsonOut(q[i])]
=============================================================================
