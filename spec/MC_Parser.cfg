SPECIFICATION Spec
CONSTANTS
  CharOrder <- AsciiOrder
  LowerSet <- AsciiLower
  MaxFuel = 64
  Family = "C19"
  MaxCalls = 3
  Shard = 0
  NShards = 1
INVARIANT TypeOK
PROPERTY ObservationIsPure
CHECK_DEADLOCK FALSE
